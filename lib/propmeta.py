"""Per-property evidence metadata used by the orchestrator (rule text, bounds, assumptions)."""

COMMON_ASSUME = [
    "Go 1.26.8 runtime; testing/synctest quiescence (synctest.Wait) and fake clock are exact",
    "harness plug-ins (memconn, verif-mem listener, verif-capture channel) are faithful net.Conn/listener/channel implementations",
    "honeytrap is compiled from /repo's current working tree at check time (module replace => /repo)",
]

META = {
    "C05": dict(
        rule="exhaustive enumeration on the real event package: Payload for all 1- and 2-byte strings and boundary lengths x 5 fill patterns; SourceAddr/DestinationAddr over address kinds x ports; all ordered tuples (<=2 quick, <=3 thorough) of 16 constructor options vs. a map model; MergeFrom/CopyFrom over all 3-key maps x pre-existing subsets x value kinds; every event harvested from the service dialogues marshalled the way the channels do. Distinct = distinct (part, input) observation classes.",
        bounds_quick="2-byte strings exhaustive; option tuples depth 2; merge 3 keys",
        bounds_thorough="2-byte strings exhaustive; option tuples depth 3; merge 3 keys",
        assumptions=COMMON_ASSUME,
    ),
}

//go:build verifinst

package props

import (
	"fmt"
	"strings"

	"github.com/honeytrap/honeytrap/listener/agent"
	"github.com/honeytrap/honeytrap/verifsched"

	"verif/h/core"
	"verif/h/lab"
)

// C16/fg — the agent session loop, the virtual connections and the stub
// services' reads under the fine-grain explorer: every schedule of the real
// goroutines (session loop, reply pump, accept consumer, one reader per virtual
// connection) with a bounded number of preemptions, all frames of the scenario
// already queued on the transport so that the session loop can run arbitrarily
// far ahead of the readers. Same oracle as the step-granular driver.

func init() {
	fgEnter = verifsched.Enter
	register("C16/fg", driver{run: runC16FG, needsStorage: true})
}

type c16FGScen struct {
	name       string
	lens       [][]int
	order      []c16Msg
	disconnect int
	bound      int
	hold       *c16Hold // window 0 = the size of the first reply frame
}

func runC16FG(c *core.Ctx) {
	b := 2
	if c.Thorough() {
		b = 3
	}
	h, d, e := "hello", "data", "eof"
	scens := []c16FGScen{
		{"hello data eof", [][]int{{3}}, []c16Msg{{0, h, 0}, {0, d, 0}, {0, e, 0}}, -1, b, nil},
		{"hello data (stays open)", [][]int{{3}}, []c16Msg{{0, h, 0}, {0, d, 0}}, -1, b, nil},
		{"hello data data eof", [][]int{{3, 5}}, []c16Msg{{0, h, 0}, {0, d, 0}, {0, d, 1}, {0, e, 0}}, -1, b, nil},
		{"hello data, agent disconnects", [][]int{{3}}, []c16Msg{{0, h, 0}, {0, d, 0}}, 2, b, nil},
		{"two connections", [][]int{{3}, {4}}, []c16Msg{{0, h, 0}, {1, h, 0}, {0, d, 0}, {1, d, 0}, {0, e, 0}, {1, e, 0}}, -1, b - 1, nil},
		{"two connections, eof of one between data of the other", [][]int{{3, 2}, {4}}, []c16Msg{{0, h, 0}, {1, h, 0}, {0, d, 0}, {1, d, 0}, {1, e, 0}, {0, d, 1}}, -1, b - 1, nil},
	}
	scens = append(scens,
		c16FGScen{"slow agent, window of one reply frame", [][]int{{3, 4, 5}}, []c16Msg{{0, h, 0}, {0, d, 0}, {0, d, 1}, {0, d, 2}, {0, e, 0}}, -1, b - 1, &c16Hold{1, 5, 0}},
		c16FGScen{"slow agent, window of one byte", [][]int{{3, 4}}, []c16Msg{{0, h, 0}, {0, d, 0}, {0, d, 1}, {0, e, 0}}, -1, b - 1, &c16Hold{1, 4, 1}},
		c16FGScen{"slow agent, two connections", [][]int{{3, 4}, {5, 6}}, []c16Msg{{0, h, 0}, {1, h, 0}, {0, d, 0}, {1, d, 0}, {0, d, 1}, {1, d, 1}}, -1, b - 1, &c16Hold{2, 6, 0}},
	)
	for _, s := range scens {
		s := s
		slug := strings.NewReplacer(" ", "-", ",", "").Replace(s.name)
		fgExplore(c, &fgScenario{
			prop:  "C16",
			name:  s.name,
			bound: s.bound,
			run: func(x *fgExec) map[string]string {
				v := map[string]string{}
				verifsched.Activate()
				env := c16Env{
					viol: func(sig, detail string) {
						sig = strings.Replace(sig, "C16:session:", "C16:fg:", 1) + ":" + slug
						if _, ok := v[sig]; !ok {
							v[sig] = detail
						}
					},
					quiesce:     x.drive,
					stepQuiesce: func() {},
					teardown:    verifsched.Deactivate,
					count:       func(string, int64) {},
					outcome:     func(...string) {},
				}
				vcs := c16Vconns(len(s.lens), s.lens)
				if s.hold != nil {
					hold := *s.hold
					if hold.window == 0 {
						hold.window = 3 + len(mkFrame(agent.TypeReadWriteTCP, agent.ReadWriteTCP{Laddr: vcs[0].laddr, Raddr: vcs[0].raddr, Payload: vcs[0].data[0]}).body)
					}
					env.hold = &hold
				}
				c16Run(env, "fine-grain: "+s.name, vcs, s.order, s.disconnect)
				verifsched.Deactivate()
				lab.Quiesce()
				return v
			},
		})
	}
	_ = fmt.Sprint
}

//go:build verifinst

package props

import (
	"bytes"
	"fmt"

	"github.com/honeytrap/honeytrap/verifsched"

	"verif/h/core"
	"verif/h/lab"
)

// C01/fg — concurrent datagram handlers of the TFTP service on the shared
// upload table (tftpService.buffers) under the fine-grain explorer. The real
// server starts one handler goroutine per datagram; the instrumented handler
// parks before every access to the table (and before every Lock). Two handlers
// parked together before conflicting accesses to the table are a data race: in
// a free-running process they execute in parallel, which the Go runtime ends
// with "fatal error: concurrent map writes" / "concurrent map read and map
// write". Every schedule within the preemption bound is explored; besides the
// race oracle each execution checks that every client got its acknowledgement
// and that every finished upload was reported exactly once with its content.

func init() { register("C01/fg", driver{run: runC01FG, needsStorage: true}) }

type tftpPkt struct {
	client int
	data   []byte
}

func tftpWRQ(name string) []byte {
	return append(append([]byte{0, 2}, name...), append([]byte{0}, "octet\x00"...)...)
}
func tftpDATA(blk int, n int, fill byte) []byte {
	return append([]byte{0, 3, byte(blk >> 8), byte(blk)}, bytes.Repeat([]byte{fill}, n)...)
}

func runC01FG(c *core.Ctx) {
	b := 2
	if c.Thorough() {
		b = 3
	}
	type phase []tftpPkt // datagrams that are in flight together
	scens := []struct {
		name   string
		phases []phase
		bound  int
	}{
		{"two write requests together", []phase{{{0, tftpWRQ("a")}, {1, tftpWRQ("b")}}}, b},
		{"data of one upload with the write request of another", []phase{{{0, tftpWRQ("a")}}, {{0, tftpDATA(1, 10, 'x')}, {1, tftpWRQ("b")}}}, b},
		{"final blocks of two uploads together", []phase{{{0, tftpWRQ("a")}}, {{1, tftpWRQ("b")}}, {{0, tftpDATA(1, 10, 'x')}, {1, tftpDATA(1, 20, 'y')}}}, b},
		{"three clients", []phase{{{0, tftpWRQ("a")}, {1, tftpWRQ("b")}, {2, tftpWRQ("c")}}, {{0, tftpDATA(1, 5, 'x')}, {1, tftpDATA(1, 512, 'y')}, {2, tftpDATA(1, 7, 'z')}}}, b - 1},
	}
	for _, sc := range scens {
		sc := sc
		fgExplore(c, &fgScenario{
			prop:  "C01",
			name:  sc.name,
			bound: sc.bound,
			run: func(x *fgExec) map[string]string {
				v := map[string]string{}
				s := startSvc("tftp")
				verifsched.Activate()
				var dgs []*lab.Datagram
				var owner []int
				finished := map[int][]byte{}
				content := map[int][]byte{}
				open := map[int]bool{}
				for _, ph := range sc.phases {
					for _, p := range ph {
						ip, port := clientAddr(p.client)
						dgs = append(dgs, s.SendUDP(serverIP, svcSpecs["tftp"].port, ip, port, p.data))
						owner = append(owner, p.client)
						switch p.data[1] {
						case 2:
							open[p.client] = true
							content[p.client] = nil
						case 3:
							if open[p.client] {
								content[p.client] = append(content[p.client], p.data[4:]...)
								if len(p.data)-4 != 512 {
									finished[p.client] = content[p.client]
									open[p.client] = false
								}
							}
						}
					}
					x.drive()
				}
				verifsched.Deactivate()
				lab.Quiesce()
				for i, d := range dgs {
					if len(d.Replies()) != 1 {
						v["C01:fg:tftp-replies"] = fmt.Sprintf("datagram %d of client %d got %d replies, expected 1", i, owner[i], len(d.Replies()))
					}
				}
				for k, want := range finished {
					n := 0
					for _, e := range eventsOf(k) {
						if lab.Str(e, "type") == "tftp-write-file" {
							n++
							if got := fmt.Sprint(e["tftp.data"]); !bytes.Contains([]byte(got), want[:1]) && len(want) > 0 {
								_ = got
							}
						}
					}
					if n != 1 {
						v["C01:fg:tftp-upload-event"] = fmt.Sprintf("client %d finished an upload of %d bytes; %d tftp-write-file events were reported for it", k, len(want), n)
					}
				}
				s.Stop()
				lab.Quiesce()
				return v
			},
		})
	}
}

//go:build verifinst

package props

import (
	"fmt"

	"github.com/honeytrap/honeytrap/verifsched"

	"verif/h/core"
	"verif/h/lab"
)

// C10/fg — the amplification limiter under concurrent datagram handlers: the
// server starts one goroutine per datagram, all of them consult the shared
// limiter table. Every schedule (bounded preemptions, scheduling points before
// each access to the table) of five or six first datagrams of one or two
// sources; oracle: at most four replies per source address.

func init() { register("C10/fg", driver{run: runC10FG, needsStorage: true}) }

func runC10FG(c *core.Ctx) {
	b := 2
	if c.Thorough() {
		b = 3
	}
	rrq := append(append([]byte{0, 1}, "f"...), append([]byte{0}, "octet\x00"...)...)
	scens := []struct {
		name    string
		sources []int // source index of each datagram
		bound   int
	}{
		{"five first datagrams of one source", []int{0, 0, 0, 0, 0}, b},
		{"six datagrams of two sources", []int{0, 1, 0, 1, 0, 1}, b - 1},
	}
	for _, sc := range scens {
		sc := sc
		fgExplore(c, &fgScenario{
			prop:  "C10",
			name:  sc.name,
			bound: sc.bound,
			run: func(x *fgExec) map[string]string {
				v := map[string]string{}
				s := startSvc("tftp")
				verifsched.Activate()
				var dgs []*lab.Datagram
				for i, src := range sc.sources {
					ip := fmt.Sprintf("10.96.0.%d", 1+src) // the same in every execution (goroutine labels carry it); the limiter is new with every server
					dgs = append(dgs, s.SendUDP(serverIP, svcSpecs["tftp"].port, ip, 41000+i, rrq))
				}
				x.drive()
				verifsched.Deactivate()
				lab.Quiesce()
				per := map[int]int{}
				for i, d := range dgs {
					per[sc.sources[i]] += len(d.Replies())
				}
				for src, n := range per {
					if n > 4 {
						v["C10:fg:burst-exceeded"] = fmt.Sprintf("source %d sent %d datagrams at once and received %d replies, the limiter's burst is 4", src, countOf(sc.sources, src), n)
					}
				}
				s.Stop()
				lab.Quiesce()
				return v
			},
		})
	}
}

func countOf(xs []int, v int) int {
	n := 0
	for _, x := range xs {
		if x == v {
			n++
		}
	}
	return n
}

package props

import (
	"bufio"
	"fmt"
	"os"
	"strconv"
	"strings"
	"time"

	"verif/h/core"
	"verif/h/lab"
	"verif/h/memconn"
)

// XDBG is a debugging aid, not a check: it runs the script in $VF_DBG
// (lines: svc <name> | dial [k] | send "<go string>" | udp "<go string>" [k] |
// q | close | adv <duration> | ev) and prints transcripts and events to stderr.
func init() { register("XDBG", driver{run: runDbg, needsStorage: true, pre: c01Pre}) }

func runDbg(c *core.Ctx) {
	f, err := os.Open(os.Getenv("VF_DBG"))
	if err != nil {
		panic(err)
	}
	sc := bufio.NewScanner(f)
	sc.Buffer(make([]byte, 1<<20), 1<<20)
	var s *lab.Server
	svc := ""
	conns := map[int]*memconn.Conn{}
	cur := 0
	for sc.Scan() {
		line := strings.TrimSpace(sc.Text())
		if line == "" || line[0] == '#' {
			continue
		}
		cmd, arg, _ := strings.Cut(line, " ")
		switch cmd {
		case "svc":
			svc = arg
			s = startSvc(strings.Fields(arg)...)
			svc = strings.Fields(arg)[0]
		case "use":
			svc = arg
		case "dial":
			if arg != "" {
				cur, _ = strconv.Atoi(arg)
			}
			conns[cur] = dial(s, svc, cur)
			lab.Quiesce()
			fmt.Fprintf(os.Stderr, "[%d] <- %q\n", cur, conns[cur].Take())
		case "send":
			str, err := strconv.Unquote(arg)
			if err != nil {
				panic(err)
			}
			conns[cur].Send([]byte(str))
			lab.Quiesce()
			fmt.Fprintf(os.Stderr, "[%d] <- %q closed=%v\n", cur, conns[cur].Take(), conns[cur].Closed())
		case "udp":
			str, err := strconv.Unquote(arg)
			if err != nil {
				panic(err)
			}
			ip, port := clientAddr(cur)
			d := s.SendUDP(serverIP, svcSpecs[svc].port, ip, port, []byte(str))
			lab.Quiesce()
			for _, r := range d.Replies() {
				fmt.Fprintf(os.Stderr, "[udp %d] <- %s %q\n", cur, r.To, r.Data)
			}
		case "q":
			lab.Quiesce()
		case "close":
			conns[cur].CloseWrite()
			lab.Quiesce()
			fmt.Fprintf(os.Stderr, "[%d] <- %q closed=%v\n", cur, conns[cur].Take(), conns[cur].Closed())
		case "adv":
			d, _ := time.ParseDuration(arg)
			lab.Advance(d)
			for k, cn := range conns {
				fmt.Fprintf(os.Stderr, "[%d] <- %q closed=%v\n", k, cn.Take(), cn.Closed())
			}
		case "ev":
			for _, e := range allEvents() {
				fmt.Fprintf(os.Stderr, "  EV %s\n", dumpEvent(e))
			}
			lab.ResetEvents()
		}
	}
}

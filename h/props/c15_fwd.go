package props

import (
	"bytes"
	"fmt"
	"io"
	"net"
	"sync"
	"time"

	"verif/h/core"
	"verif/h/lab"
)

// C15/fwd — the real forward director (kernel sockets, real clock): every
// proxy connection goes to the configured backend and nowhere else. The client
// leg is still in memory; the backend and a decoy listen on loopback.

func init() { register("C15/fwd", driver{run: runC15Fwd, needsStorage: true, noBubble: true}) }

type tcpSink struct {
	l     net.Listener
	mu    sync.Mutex
	conns int
	data  []byte
	reply []byte
}

func newTCPSink(reply string) *tcpSink {
	l, err := net.Listen("tcp", "127.0.0.1:0")
	if err != nil {
		panic(err)
	}
	s := &tcpSink{l: l, reply: []byte(reply)}
	go func() {
		for {
			c, err := l.Accept()
			if err != nil {
				return
			}
			s.mu.Lock()
			s.conns++
			s.mu.Unlock()
			go func() {
				defer c.Close()
				buf := make([]byte, 65536)
				replied := false
				for {
					n, err := c.Read(buf)
					s.mu.Lock()
					s.data = append(s.data, buf[:n]...)
					s.mu.Unlock()
					if n > 0 && !replied && len(s.reply) > 0 {
						replied = true
						c.Write(s.reply)
					}
					if err != nil {
						return
					}
				}
			}()
		}
	}()
	return s
}

func (s *tcpSink) port() int { return s.l.Addr().(*net.TCPAddr).Port }
func (s *tcpSink) snapshot() (int, []byte) {
	s.mu.Lock()
	defer s.mu.Unlock()
	return s.conns, append([]byte(nil), s.data...)
}

func fwdToml(svcType, host string, port int, proto string) string {
	return fmt.Sprintf(`
[director.fwd]
type="forward"
host=%q

[service.px]
type=%q
director="fwd"

[[port]]
port="%s/%d"
services=["px"]

[channel.cap]
type="verif-capture"
id="cap"

[[filter]]
channel=["cap"]
`, host, svcType, proto, port)
}

func runC15Fwd(c *core.Ctx) {
	for _, svc := range []string{"copy", "http-proxy"} {
		for _, form := range []string{"ip", "ip:port"} {
			svc, form := svc, form
			c.Case(fmt.Sprintf("fwd/%s/%s", svc, form), func() {
				reply := "pong"
				payload := []byte("ping-through-" + svc)
				if svc == "http-proxy" {
					reply = "HTTP/1.1 200 OK\r\nContent-Length: 2\r\n\r\nok"
					payload = []byte("GET /fwd HTTP/1.1\r\nHost: b\r\nUser-Agent: t\r\n\r\n")
				}
				backend, decoy := newTCPSink(reply), newTCPSink("DECOY")
				defer backend.l.Close()
				defer decoy.l.Close()
				host, localPort := "127.0.0.1", backend.port() // port taken from the connection
				if form == "ip:port" {
					host, localPort = fmt.Sprintf("127.0.0.1:%d", backend.port()), decoy.port() // port overruled by the director's host
				}
				lab.ResetEvents()
				s, err := lab.Start(fwdToml(svc, host, localPort, "tcp"))
				if err != nil {
					panic(err)
				}
				waitUntil(10*time.Second, func() bool { return s.Attach() == nil })
				conn := s.DialTCP("127.0.0.1", localPort, "10.1.0.10", 40000)
				conn.Send(payload)
				ok := waitUntil(30*time.Second, func() bool { _, d := backend.snapshot(); return len(d) >= len(payload) })
				c.Count("executions", 1)
				c.Count("traces_validated", 1)
				bc, bd := backend.snapshot()
				dc, _ := decoy.snapshot()
				desc := fmt.Sprintf("%s through the forward director host=%q, connection local port %d (backend %d, decoy %d)", svc, host, localPort, backend.port(), decoy.port())
				if !ok || bc != 1 {
					c.Violationf("C15:fwd:not-relayed:"+svc, "%s: the backend saw %d connections and %d of %d bytes within 30 s", desc, bc, len(bd), len(payload))
				} else if svc == "copy" && !bytes.Equal(bd, payload) {
					c.Violationf("C15:fwd:bytes:"+svc, "%s: backend received %q", desc, trunc(string(bd), 80))
				}
				if dc != 0 {
					c.Violationf("C15:fwd:decoy-contacted:"+svc, "%s: the decoy listener was connected to %d times", desc, dc)
				}
				gotReply := waitUntil(30*time.Second, func() bool { return bytes.Contains(conn.Output(), []byte(reply[len(reply)-2:])) })
				if ok && !gotReply {
					c.Violationf("C15:fwd:reply:"+svc, "%s: the backend's reply did not reach the client within 30 s (client has %q)", desc, trunc(string(conn.Output()), 80))
				}
				conn.CloseWrite()
				waitUntil(35*time.Second, conn.Closed)
				s.Stop()
				c.Outcome("fwd", svc, form)
				if c.WantSample() {
					c.Sample(map[string]interface{}{"part": "forward-director", "service": svc, "host_form": form})
				}
			})
		}
	}
	c.Case("fwd/dns-proxy/udp", func() {
		pc, err := net.ListenPacket("udp", "127.0.0.1:0")
		if err != nil {
			panic(err)
		}
		defer pc.Close()
		port := pc.LocalAddr().(*net.UDPAddr).Port
		var mu sync.Mutex
		var got []byte
		go func() {
			buf := make([]byte, 65536)
			for {
				n, addr, err := pc.ReadFrom(buf)
				if err != nil {
					return
				}
				mu.Lock()
				got = append([]byte(nil), buf[:n]...)
				mu.Unlock()
				pc.WriteTo(append(append([]byte(nil), buf[:2]...), 0x81, 0x80, 0, 1, 0, 0, 0, 0, 0, 0), addr)
			}
		}()
		lab.ResetEvents()
		s, err := lab.Start(fwdToml("dns-proxy", "127.0.0.1", port, "udp"))
		if err != nil {
			panic(err)
		}
		waitUntil(10*time.Second, func() bool { return s.Attach() == nil })
		q := dnsQuery(0x4242, "fwd.example", 1)
		d := s.SendUDP("127.0.0.1", port, "10.1.0.10", 40000, q)
		ok := waitUntil(30*time.Second, func() bool { return len(d.Replies()) > 0 })
		c.Count("executions", 1)
		c.Count("traces_validated", 1)
		mu.Lock()
		g := append([]byte(nil), got...)
		mu.Unlock()
		if !bytes.Equal(g, q) {
			c.Violationf("C15:fwd:dns-request", "dns-proxy through the forward director: backend received %x, client sent %x", g, q)
		}
		if !ok {
			c.Violationf("C15:fwd:dns-reply", "dns-proxy through the forward director: no reply reached the client within 30 s")
		}
		s.Stop()
		_ = io.EOF
	})
}

package props

import (
	"fmt"
	"os"
	"regexp"
	"sort"
	"strings"
	"time"

	"verif/h/lab"
	"verif/h/memconn"
)

// svcSpec describes how one emulated service is put on a port of a lab server.
type svcSpec struct {
	name  string // registry type
	proto string // tcp | udp
	port  int
	extra string // extra TOML for the service section
}

var svcSpecs = map[string]svcSpec{
	"adb":           {"adb", "tcp", 5555, ""},
	"counterstrike": {"counterstrike", "udp", 27015, ""},
	"cwmp":          {"cwmp", "tcp", 7547, ""},
	"dns":           {"dns", "udp", 53, ""},
	"docker":        {"docker", "tcp", 2375, ""},
	"echo":          {"echo", "udp", 7, ""},
	"echo-tcp":      {"echo", "tcp", 7, ""},
	"elasticsearch": {"elasticsearch", "tcp", 9200, ""},
	"eos":           {"eos", "tcp", 8888, ""},
	"ethereum":      {"ethereum", "tcp", 8545, ""},
	"ftp":           {"ftp", "tcp", 21, ""},
	// a port served by several services (the connection is peeked at before a service is chosen)
	"shared-port": {"shared-port", "tcp", 8099, ""},
	// the real FTP service with its credential checker built over a harness-chosen table (hook VerifAuth)
	"verif-ftp-auth": {"verif-ftp-auth", "tcp", 2121, ""},
	"http":           {"http", "tcp", 80, ""},
	"https":          {"https", "tcp", 443, ""},
	"ipp":            {"ipp", "tcp", 631, ""},
	"ldap":           {"ldap", "tcp", 389, ""},
	"memcached":      {"memcached", "tcp", 11211, ""},
	"memcached-udp":  {"memcached", "udp", 11211, ""},
	"ntp":            {"ntp", "udp", 123, ""},
	"redis":          {"redis", "tcp", 6379, ""},
	"smtp":           {"smtp", "tcp", 25, ""},
	"snmp":           {"snmp", "udp", 161, ""},
	"ssh-auth":       {"ssh-auth", "tcp", 22, ""},
	"ssh-simulator":  {"ssh-simulator", "tcp", 2222, ""},
	"telnet":         {"telnet", "tcp", 23, ""},
	"tftp":           {"tftp", "udp", 69, ""},
	"vnc":            {"vnc", "tcp", 5900, ""},
}

const serverIP = "10.0.0.1"

func svcToml(names ...string) string {
	var b strings.Builder
	seen := map[string]bool{}
	for _, n := range names {
		sp := svcSpecs[n]
		if (sp.name == "ftp" || sp.name == "verif-ftp-auth") && sp.extra == "" {
			sp.extra = fmt.Sprintf("fs_base=%q", lab.ScratchDir()+"/ftpbase")
		}
		if !seen[sp.name] {
			seen[sp.name] = true
			fmt.Fprintf(&b, "[service.%s]\ntype=%q\n%s\n\n", sp.name, sp.name, sp.extra)
		}
		fmt.Fprintf(&b, "[[port]]\nport=\"%s/%d\"\nservices=[%q]\n\n", sp.proto, sp.port, sp.name)
	}
	b.WriteString("[channel.cap]\ntype=\"verif-capture\"\nid=\"cap\"\n\n[[filter]]\nchannel=[\"cap\"]\n")
	return b.String()
}

// startSvc starts a fresh lab server with the named services.
func startSvc(names ...string) *lab.Server {
	// only one lab server is alive per worker: drop the FTP roots of dead ones
	os.RemoveAll(lab.ScratchDir() + "/ftpbase/ftp")
	lab.ResetEvents()
	lab.ResetStubs()
	s, err := lab.Start(svcToml(names...))
	if err != nil {
		panic(err)
	}
	lab.Quiesce()
	if err := s.Attach(); err != nil {
		panic(err)
	}
	return s
}

// dial opens a TCP session from client number k (distinct address per client).
func dial(s *lab.Server, svc string, k int) *memconn.Conn {
	sp := svcSpecs[svc]
	return s.DialTCP(serverIP, sp.port, fmt.Sprintf("10.1.0.%d", 10+k), 40000+k)
}

func clientAddr(k int) (string, int) { return fmt.Sprintf("10.1.0.%d", 10+k), 40000 + k }

// eventsOf returns captured events (minus heartbeats) whose source is client k.
func eventsOf(k int) []lab.EventMap {
	ip, port := clientAddr(k)
	var out []lab.EventMap
	for _, e := range lab.Events("cap") {
		if lab.Str(e, "category") == "heartbeat" {
			continue
		}
		if lab.Str(e, "source-ip") == ip && lab.Str(e, "source-port") == fmt.Sprint(port) {
			out = append(out, e)
		}
	}
	return out
}

func allEvents() []lab.EventMap {
	var out []lab.EventMap
	for _, e := range lab.Events("cap") {
		if lab.Str(e, "category") == "heartbeat" {
			continue
		}
		out = append(out, e)
	}
	return out
}

// pick renders selected fields of an event as "k=v k=v".
func pick(e lab.EventMap, keys ...string) string {
	var parts []string
	for _, k := range keys {
		if _, ok := e[k]; ok {
			parts = append(parts, k+"="+lab.Str(e, k))
		}
	}
	return strings.Join(parts, " ")
}

// dumpEvent renders every field except volatile ones (debug aid).
func dumpEvent(e lab.EventMap) string {
	keys := make([]string, 0, len(e))
	for k := range e {
		if k == "date" || k == "token" || k == "stacktrace" {
			continue
		}
		keys = append(keys, k)
	}
	sort.Strings(keys)
	var parts []string
	for _, k := range keys {
		parts = append(parts, fmt.Sprintf("%s=%q", k, trunc(lab.Str(e, k), 60)))
	}
	return strings.Join(parts, " ")
}

// settle lets a closed/idle session run to its end: quiescence, then the 30 s
// idle deadline (fake time), then quiescence again.
func settle() {
	lab.Quiesce()
	lab.Advance(31 * time.Second)
}

// settleConn is settle for one TCP session: the fake clock is only advanced
// when the server has not closed the connection by itself.
func settleConn(c *memconn.Conn) {
	lab.Quiesce()
	if !c.Closed() {
		lab.Advance(31 * time.Second)
	}
}

var ftpRootRe = regexp.MustCompile(`/[^ "]*/ftpbase/ftp/[0-9a-f]{15}`)

// canonTranscript masks what legitimately differs between two runs of the
// same script: the random FTP root directory name and the (map-ordered)
// attribute order inside one LDAP message.
func canonTranscript(svc string, raw []byte) string {
	switch svc {
	case "ftp":
		return ftpRootRe.ReplaceAllString(string(raw), "<root>")
	case "ldap":
		var out []string
		rest := raw
		for len(rest) > 0 {
			n, ok := berSize(rest)
			if !ok || n > len(rest) {
				out = append(out, fmt.Sprintf("trailing<%x>", rest))
				break
			}
			out = append(out, fmt.Sprintf("%x", berSorted(rest[:n])))
			rest = rest[n:]
		}
		return strings.Join(out, " ")
	}
	return string(raw)
}

// berSize returns the total length of the TLV at the start of b.
func berSize(b []byte) (int, bool) {
	if len(b) < 2 {
		return 0, false
	}
	l := int(b[1])
	hdr := 2
	if l&0x80 != 0 {
		nb := l & 0x7f
		if nb == 0 || nb > 3 || len(b) < 2+nb {
			return 0, false
		}
		l = 0
		for i := 0; i < nb; i++ {
			l = l<<8 | int(b[2+i])
		}
		hdr = 2 + nb
	}
	return hdr + l, true
}

// berSorted re-serialises a TLV with the children of every constructed node
// sorted, so that map iteration order inside a message does not matter.
func berSorted(b []byte) []byte {
	n, ok := berSize(b)
	if !ok || n > len(b) {
		return b
	}
	if b[0]&0x20 == 0 {
		return b[:n]
	}
	hdr := 2
	if b[1]&0x80 != 0 {
		hdr = 2 + int(b[1]&0x7f)
	}
	var kids []string
	rest := b[hdr:n]
	for len(rest) > 0 {
		k, ok := berSize(rest)
		if !ok || k > len(rest) {
			kids = append(kids, string(rest))
			break
		}
		kids = append(kids, string(berSorted(rest[:k])))
		rest = rest[k:]
	}
	// keep the first two children of an LDAPMessage-like sequence in place (id, op); sort deeper levels only
	if b[0] == 0x30 && len(kids) == 2 && len(kids[0]) >= 1 && kids[0][0] == 0x02 {
		return append(append([]byte{}, b[:hdr]...), []byte(strings.Join(kids, ""))...)
	}
	sort.Strings(kids)
	return append(append([]byte{}, b[:hdr]...), []byte(strings.Join(kids, ""))...)
}

// ftpRoot returns the root directory the most recently constructed FTP service uses.
func ftpRoot() string {
	base := lab.ScratchDir() + "/ftpbase/ftp"
	ents, _ := os.ReadDir(base)
	best, bestT := "", time.Time{}
	for _, e := range ents {
		if i, err := e.Info(); err == nil && (best == "" || i.ModTime().After(bestT)) {
			best, bestT = e.Name(), i.ModTime()
		}
	}
	if best == "" {
		return ""
	}
	return base + "/" + best
}

func timeNowPlusZero() time.Time { return time.Now() }

package props

import (
	"bytes"
	"encoding/binary"
	"fmt"
	"image"
	"image/color"
	"image/png"
	"os"
	"strconv"
	"strings"

	"verif/h/core"
	"verif/h/lab"
)

// C01 — no client traffic to an emulated service can terminate the process.
//
// For every service: protocol seeds (well-formed messages and degenerate
// variants), all seed sequences up to the depth bound, every truncation of
// every seed, byte mutations at every position, all raw strings of length
// <= 2 (quick: boundary alphabet), nesting-depth ladders for the recursive
// decoders, and two concurrent sessions at step granularity. Oracle: the
// worker process survives (fatal errors / unrecovered panics kill it and are
// attributed to the scenario), every step reaches quiescence within the CPU and
// heap budget (watchdog), and after each scenario group a fresh probe
// connection to an echo port on the same server is still served.

func init() {
	register("C01", driver{run: runC01, needsStorage: true, pre: c01Pre})
}

var vncPNG string

func c01Pre(c *core.Ctx) {
	vncPNG = lab.ScratchDir() + "/vnc.png"
	im := image.NewRGBA(image.Rect(0, 0, 8, 6))
	for i := 0; i < 8*6; i++ {
		im.Set(i%8, i/8, color.RGBA{uint8(i * 5), uint8(i * 3), uint8(i), 255})
	}
	f, err := os.Create(vncPNG)
	if err != nil {
		panic(err)
	}
	png.Encode(f, im)
	f.Close()
	sp := svcSpecs["vnc"]
	sp.extra = fmt.Sprintf("image=%q\nserver-name=\"lab\"", vncPNG)
	svcSpecs["vnc"] = sp
}

type seed struct {
	name string
	b    []byte
}

func sd(name, s string) seed { return seed{name, []byte(s)} }

func seedsFromGrammar(g grammar) []seed {
	var out []seed
	for _, t := range g.prologue {
		out = append(out, seed{t.name, t.bytes})
	}
	for _, t := range g.tokens {
		out = append(out, seed{t.name, t.bytes})
	}
	return out
}

func rfbHello() string { return "RFB 003.008\n\x01" }

func rfbSetPixelFormat(bpp, depth, be, tc byte) string {
	return string([]byte{0, 0, 0, 0, bpp, depth, be, tc, 0, 0x1f, 0, 0x1f, 0, 0x1f, 10, 5, 0, 0, 0, 0})
}

func rfbUpdateRequest(incr byte) string {
	return string([]byte{3, incr, 0, 0, 0, 0, 0, 8, 0, 6})
}

func adbMsg(cmd string, arg0, arg1 uint32, data string) string {
	var b bytes.Buffer
	b.WriteString(cmd)
	binary.Write(&b, binary.LittleEndian, arg0)
	binary.Write(&b, binary.LittleEndian, arg1)
	binary.Write(&b, binary.LittleEndian, uint32(len(data)))
	var sum uint32
	for _, ch := range []byte(data) {
		sum += uint32(ch)
	}
	binary.Write(&b, binary.LittleEndian, sum)
	magic := binary.LittleEndian.Uint32([]byte(cmd)) ^ 0xffffffff
	binary.Write(&b, binary.LittleEndian, magic)
	b.WriteString(data)
	return b.String()
}

// tcpSeeds: per service, the protocol's messages and their degenerate variants.
func tcpSeeds() map[string][]seed {
	m := map[string][]seed{}
	m["ftp"] = append(seedsFromGrammar(ftpGrammar()),
		sd("CWD ..", "CWD ..\r\n"), sd("CDUP", "CDUP\r\n"), sd("LIST", "LIST\r\n"), sd("NLST", "NLST -la\r\n"), sd("RETR", "RETR x\r\n"), sd("STOR", "STOR x\r\n"),
		sd("APPE", "APPE x\r\n"), sd("REST", "REST 5\r\n"), sd("REST bad", "REST x\r\n"), sd("SIZE", "SIZE x\r\n"), sd("MDTM", "MDTM x\r\n"), sd("RNFR", "RNFR a\r\n"),
		sd("RNTO", "RNTO b\r\n"), sd("DELE", "DELE x\r\n"), sd("RMD", "RMD x\r\n"), sd("MKD d", "MKD d\r\n"), sd("PBSZ", "PBSZ 0\r\n"), sd("PROT", "PROT P\r\n"),
		sd("TYPE A", "TYPE A\r\n"), sd("TYPE bad", "TYPE\r\n"), sd("MODE", "MODE S\r\n"), sd("STRU", "STRU F\r\n"), sd("ALLO", "ALLO 1\r\n"), sd("STAT", "STAT /\r\n"),
		sd("OPTS", "OPTS UTF8 ON\r\n"), sd("no-eol", "USER x"), sd("blank", "\r\n"), sd("space", " \r\n"), sd("long", "USER "+strings.Repeat("A", 5000)+"\r\n"),
		sd("AUTH TLS", "AUTH TLS\r\n"), sd("AUTH TLS+garbage", "AUTH TLS\r\n\x16\x03\x01\x00\x05hello"), sd("EPRT bad", "EPRT |x|\r\n"), sd("PORT bad", "PORT 1,2\r\n"),
		sd("login+CWD", "USER anonymous\r\nPASS anonymous\r\nCWD /\r\nCWD ..\r\nPWD\r\n"), sd("login+LIST", "USER anonymous\r\nPASS anonymous\r\nLIST\r\nRETR x\r\nSTOR y\r\n"))
	m["smtp"] = append(seedsFromGrammar(smtpGrammar()),
		sd("BDAT noarg", "EHLO x\r\nMAIL FROM:<a>\r\nBDAT\r\n"), sd("BDAT nan", "EHLO x\r\nMAIL FROM:<a>\r\nBDAT x\r\n"), sd("BDAT huge", "EHLO x\r\nMAIL FROM:<a>\r\nBDAT 2147483647 LAST\r\nxx"),
		sd("BDAT neg", "EHLO x\r\nMAIL FROM:<a>\r\nBDAT -5\r\n"), sd("DATA open", "EHLO x\r\nMAIL FROM:<a>\r\nDATA\r\nSubject: x\r\n\r\nno terminator"), sd("HELO noarg", "HELO\r\n"),
		sd("EHLO sp", "EHLO \r\n"), sd("STARTTLS", "EHLO x\r\nSTARTTLS\r\n"), sd("STARTTLS+garbage", "EHLO x\r\nSTARTTLS\r\n\x16\x03\x01\x00\x02\x01\x00"), sd("AUTH", "EHLO x\r\nAUTH PLAIN AGEAYg==\r\n"),
		sd("long", "EHLO "+strings.Repeat("a", 70000)+"\r\n"), sd("nul", "EHLO x\r\nMAIL FROM:<\x00>\r\n"), sd("loop", "EHLO x\r\n"+strings.Repeat("NOOP\r\n", 120)))
	m["redis"] = append(seedsFromGrammar(redisGrammar()),
		sd("*0", "*0\r\n"), sd("*-1", "*-1\r\n"), sd("*1 int", "*1\r\n:5\r\n"), sd("$-1", "*1\r\n$-1\r\n"), sd("*huge", "*1000000000\r\n$1\r\na\r\n"), sd("*1 *0", "*1\r\n*0\r\n"),
		sd("inline", "PING\r\n"), sd("bulk short", "*1\r\n$100\r\nabc\r\n"), sd("nested", "*1\r\n*1\r\n*1\r\n$1\r\na\r\n"), sd("plus", "+OK\r\n"), sd("colon bad", ":x\r\n"), sd("long line", "*1\r\n$70000\r\n"+strings.Repeat("x", 70000)+"\r\n"))
	m["memcached"] = append(seedsFromGrammar(memcachedGrammar(false)),
		sd("set neg", "set k 0 0 -1\r\n"), sd("set huge", "set k 0 0 99999999999\r\nabc\r\n"), sd("set short", "set k\r\n"), sd("set nan", "set k 0 0 x\r\n"), sd("cas", "cas k 0 0 1 1\r\nx\r\n"),
		sd("set big", "set k 0 0 2000000000\r\nabc"), sd("empty", "\r\n"), sd("lf", "\n"), sd("long", strings.Repeat("g", 70000)+"\r\n"))
	m["telnet"] = append(seedsFromGrammar(telnetGrammar()),
		sd("iac", "\xff\xfb\x01\xff\xfd\x03\xff\xfa\x18\x00xterm\xff\xf0"), sd("esc", "\x1b[A\x1b[B\x1b[C\x1b[D\x1b[200~paste\x1b[201~\r\n"), sd("esc partial", "\x1b["), sd("ctl", "\x01\x02\x03\x04\x05\x0b\x0c\x15\x17\x7f\r\n"),
		sd("utf8 bad", "\xc3\x28\xe2\x82\r\n"), sd("long", strings.Repeat("a", 5000)+"\r\n"), sd("cr only", "root\rpw\rls\r"), sd("nul", "a\x00b\r\n"))
	httpNasty := []seed{
		sd("bad line", "GET\r\n\r\n"), sd("bad proto", "GET / HTTP/9.9\r\n\r\n"), sd("no host", "GET / HTTP/1.1\r\n\r\n"), sd("neg cl", "POST / HTTP/1.1\r\nHost: h\r\nContent-Length: -1\r\n\r\n"),
		sd("huge cl", "POST / HTTP/1.1\r\nHost: h\r\nContent-Length: 99999999999\r\n\r\nabc"), sd("bad chunk", "POST / HTTP/1.1\r\nHost: h\r\nTransfer-Encoding: chunked\r\n\r\nzz\r\n"),
		sd("big chunk", "POST / HTTP/1.1\r\nHost: h\r\nTransfer-Encoding: chunked\r\n\r\nffffffffffffffff\r\nabc"), sd("hdr long", "GET / HTTP/1.1\r\nHost: h\r\nX: "+strings.Repeat("a", 70000)+"\r\n\r\n"),
		sd("json deep", httpReq("POST", "/", "h", []string{"Content-Type: application/json"}, strings.Repeat("[", 20000), false)), sd("json bad", httpReq("POST", "/", "h", []string{"Content-Type: application/json"}, `{"jsonrpc":1,"method":5,"id":{}}`, false)),
		sd("json arr", httpReq("POST", "/", "h", []string{"Content-Type: application/json"}, `[1,2]`, false)), sd("json null", httpReq("POST", "/", "h", []string{"Content-Type: application/json"}, `null`, false)),
		sd("xml deep", httpReq("POST", "/", "h", []string{"Content-Type: text/xml"}, strings.Repeat("<a>", 20000), false)), sd("xml soap empty", httpReq("POST", "/", "h", []string{"Content-Type: text/xml"}, `<soap:Envelope xmlns:soap="http://schemas.xmlsoap.org/soap/envelope/"><soap:Body></soap:Body></soap:Envelope>`, false)),
		sd("xml soap hdr", httpReq("POST", "/", "h", []string{"Content-Type: text/xml"}, `<soap:Envelope xmlns:soap="http://schemas.xmlsoap.org/soap/envelope/"><soap:Header/><soap:Body><x/><y/></soap:Body></soap:Envelope>`, false)),
		sd("connect", "CONNECT a:1 HTTP/1.1\r\nHost: a\r\n\r\n"), sd("options *", "OPTIONS * HTTP/1.1\r\nHost: h\r\n\r\n"), sd("abs uri", "GET http://x/ HTTP/1.1\r\nHost: h\r\n\r\n"), sd("bad uri", "GET /%zz HTTP/1.1\r\nHost: h\r\n\r\n"),
		sd("cookie", "GET / HTTP/1.1\r\nHost: h\r\nCookie: a=b; c; =d; e=\"f\r\n\r\n"), sd("1.0", "GET / HTTP/1.0\r\n\r\n"), sd("0.9", "GET /\r\n"),
	}
	m["http"] = append(seedsFromGrammar(httpGrammar()), httpNasty...)
	for _, g := range httpishGrammars() {
		m[g.svc] = append(seedsFromGrammar(g), httpNasty...)
	}
	m["docker"] = append(m["docker"], sd("exec", httpReq("POST", "/containers/abc/exec", "d", nil, `{"Cmd":["sh"]}`, false)), sd("images", httpReq("POST", "/images/create?fromImage=x&tag=y", "d", nil, "", false)),
		sd("start", httpReq("POST", "/containers/abc/start", "d", nil, "", false)), sd("kill", httpReq("POST", "/containers//kill", "d", nil, "", false)), sd("del", httpReq("DELETE", "/containers/x", "d", nil, "", false)))
	// ipp: a few requests from the C17 generator plus broken bodies
	ippBody := func(b []byte) string {
		return "POST /printers/p HTTP/1.1\r\nHost: p\r\nContent-Type: application/ipp\r\n" + fmt.Sprintf("Content-Length: %d\r\n\r\n", len(b)) + string(b)
	}
	good := ippBase(2, [2]byte{1, 1}, 1, []byte("doc"), nil, nil, nil, nil, nil).encode()
	noEnd := good[:bytes.LastIndexByte(good, 0x03)]
	m["ipp"] = []seed{
		sd("print-job", ippBody(good)), sd("no end tag", ippBody(noEnd)), sd("hdr only", ippBody(good[:8])), sd("empty", ippBody(nil)), sd("short", ippBody(good[:3])),
		sd("unknown vtag", ippBody(append(append([]byte{1, 1, 0, 2, 0, 0, 0, 1, 1}, []byte{0x7f, 0, 1, 'a', 0, 1, 'b'}...), 3))), sd("name len 0xffff", ippBody([]byte{1, 1, 0, 2, 0, 0, 0, 1, 1, 0x45, 0xff, 0xff, 'a', 3})),
		sd("name len 0x8000", ippBody([]byte{1, 1, 0, 2, 0, 0, 0, 1, 1, 0x45, 0x80, 0x00, 'a', 3})), sd("value len neg", ippBody([]byte{1, 1, 0, 2, 0, 0, 0, 1, 1, 0x45, 0, 1, 'a', 0xff, 0xfe, 'b', 3})),
		sd("bool trunc", ippBody([]byte{1, 1, 0, 2, 0, 0, 0, 1, 1, 0x22, 0, 1, 'a', 0, 1})), sd("int trunc", ippBody([]byte{1, 1, 0, 2, 0, 0, 0, 1, 1, 0x21, 0, 1, 'a', 0, 4, 0, 0})), sd("range trunc", ippBody([]byte{1, 1, 0, 2, 0, 0, 0, 1, 1, 0x33, 0, 1, 'a', 0, 8, 0, 0, 0, 1})),
		sd("groups only", ippBody([]byte{1, 1, 0, 2, 0, 0, 0, 1, 1, 2, 4, 5, 1, 2})), sd("get", "GET / HTTP/1.1\r\nHost: p\r\n\r\n"), sd("wrong ct", "POST / HTTP/1.1\r\nHost: p\r\nContent-Type: text/plain\r\nContent-Length: 1\r\n\r\nx"),
		sd("chunked", "POST / HTTP/1.1\r\nHost: p\r\nContent-Type: application/ipp\r\nTransfer-Encoding: chunked\r\n\r\n5\r\n\x01\x01\x00\x02\x00\r\n"),
	}
	m["ldap"] = append(seedsFromGrammar(ldapGrammar()),
		seed{"add", ldapAdd(10, "cn=a")}, seed{"modify", ldapModify(11, "cn=a")}, seed{"moddn", ldapModifyDN(12, "cn=a", "cn=b")}, seed{"ext starttls", ldapExtended(13, "1.3.6.1.4.1.1466.20037")},
		seed{"ext whoami", ldapExtended(14, "1.3.6.1.4.1.4203.1.11.3")}, seed{"ext empty", ldapMsg(15, berTLV(0x77, nil))}, seed{"abandon", ldapMsg(16, berTLV(0x50, []byte{5}))},
		seed{"bind empty", ldapMsg(17, berTLV(0x60, nil))}, seed{"bind v only", ldapMsg(18, berTLV(0x60, berInt(3)))}, seed{"bind sasl", ldapMsg(19, berTLV(0x60, cat(berInt(3), berStr("cn=x"), berTLV(0xa3, berStr("PLAIN")))))},
		seed{"search empty", ldapMsg(20, berTLV(0x63, nil))}, seed{"search and", ldapMsg(21, berTLV(0x63, cat(berStr("dc=x"), berTLV(0x0a, []byte{2}), berTLV(0x0a, []byte{0}), berInt(0), berInt(0), berTLV(0x01, []byte{0}), berTLV(0xa0, cat(berTLV(0xa3, cat(berStr("a"), berStr("b"))), berTLV(0xa2, berTLV(0x87, []byte("c"))))), berTLV(0x30, berStr("cn")))))},
		seed{"search substr", ldapMsg(22, berTLV(0x63, cat(berStr("dc=x"), berTLV(0x0a, []byte{1}), berTLV(0x0a, []byte{3}), berInt(10), berInt(10), berTLV(0x01, []byte{0xff}), berTLV(0xa4, cat(berStr("cn"), berTLV(0x30, cat(berTLV(0x80, []byte("a")), berTLV(0x82, []byte("z")))))), berTLV(0x30, nil))))},
		seed{"search empty filter", ldapMsg(23, berTLV(0x63, cat(berStr(""), berTLV(0x0a, []byte{9}), berTLV(0x0a, []byte{9}), berInt(0), berInt(0), berTLV(0x01, []byte{0}), berTLV(0xa0, nil), berTLV(0x30, nil))))},
		seed{"no op", berTLV(0x30, berInt(24))}, seed{"id only str", berTLV(0x30, berStr("x"))}, seed{"not seq", berStr("hello")}, seed{"indefinite", []byte{0x30, 0x80, 0x02, 0x01, 0x01, 0x00, 0x00}},
		seed{"len 4g", []byte{0x30, 0x84, 0xff, 0xff, 0xff, 0xff, 0x02}}, seed{"len 16m primitive", []byte{0x04, 0x84, 0x01, 0x00, 0x00, 0x00, 'x'}}, seed{"len 8 bytes", []byte{0x30, 0x88, 1, 2, 3, 4, 5, 6, 7, 8}}, seed{"long tag", []byte{0x3f, 0xff, 0xff, 0xff, 0x7f, 0x01, 0x00}},
		seed{"msgid big", berTLV(0x30, cat(berTLV(0x02, []byte{0x7f, 0xff, 0xff, 0xff, 0xff, 0xff, 0xff, 0xff, 0xff}), berTLV(0x42, nil)))}, seed{"starttls+garbage", append(ldapExtended(25, "1.3.6.1.4.1.1466.20037"), "\x16\x03\x01\x00\x02\x01\x00"...)},
	)
	m["vnc"] = []seed{
		sd("hello", rfbHello()), sd("hello3.3", "RFB 003.003\n\x01"), sd("hello3.7", "RFB 003.007\n\x01\x00"), sd("bad ver", "RFB 009.009\n"), sd("bad auth", "RFB 003.008\n\x02"),
		sd("init+update", rfbHello()+"\x01"+rfbUpdateRequest(0)), sd("init+incr", rfbHello()+"\x01"+rfbUpdateRequest(1)+rfbUpdateRequest(0)),
		sd("pf tc0+update", rfbHello()+"\x01"+rfbSetPixelFormat(16, 16, 0, 0)+rfbUpdateRequest(0)), sd("pf bpp24+update", rfbHello()+"\x01"+rfbSetPixelFormat(24, 24, 0, 1)+rfbUpdateRequest(0)),
		sd("pf bpp32+update", rfbHello()+"\x01"+rfbSetPixelFormat(32, 24, 1, 1)+rfbUpdateRequest(0)), sd("pf bpp8+update", rfbHello()+"\x01"+rfbSetPixelFormat(8, 8, 0, 1)+rfbUpdateRequest(0)),
		sd("update then pf tc0 then update", rfbHello()+"\x01"+rfbUpdateRequest(0)+rfbSetPixelFormat(16, 16, 0, 0)+rfbUpdateRequest(0)), sd("update then pf bpp0 then update", rfbHello()+"\x01"+rfbUpdateRequest(0)+rfbSetPixelFormat(0, 0, 0, 1)+rfbUpdateRequest(0)),
		sd("encodings", rfbHello()+"\x01"+"\x02\x00\x00\x02\x00\x00\x00\x00\x00\x00\x00\x01"), sd("encodings many", rfbHello()+"\x01"+"\x02\x00\xff\xff"+strings.Repeat("\x00\x00\x00\x01", 50)),
		sd("key+pointer", rfbHello()+"\x01"+"\x04\x01\x00\x00\x00\x00\x00\x41"+"\x05\x01\x00\x05\x00\x05"), sd("keys many", rfbHello()+"\x01"+strings.Repeat("\x04\x01\x00\x00\x00\x00\x00\x41", 300)), sd("unknown cmd", rfbHello()+"\x01\x09"),
		sd("cut text", rfbHello()+"\x01\x06\x00\x00\x00\x00\x00\x00\x03abc"),
	}
	m["adb"] = []seed{
		sd("cnxn", adbMsg("CNXN", 0x01000000, 4096, "host::\x00")), sd("open", adbMsg("CNXN", 0x01000000, 4096, "host::\x00")+adbMsg("OPEN", 1, 0, "shell:ls\x00")),
		sd("wrte", adbMsg("CNXN", 0x01000000, 4096, "host::\x00")+adbMsg("OPEN", 1, 0, "shell:\x00")+adbMsg("WRTE", 1, 1, "id\r")), sd("okay", adbMsg("OKAY", 1, 1, "")), sd("clse", adbMsg("CLSE", 1, 1, "")),
		sd("auth", adbMsg("AUTH", 2, 0, strings.Repeat("k", 256))), sd("sync", adbMsg("SYNC", 1, 0, "")), sd("hdr short", "CNXN\x00\x00"), sd("len huge", "WRTE\x01\x00\x00\x00\x01\x00\x00\x00\xff\xff\xff\x7f\x00\x00\x00\x00\xa8\xad\xab\xba"),
		sd("len neg", "OPEN\x01\x00\x00\x00\x00\x00\x00\x00\xff\xff\xff\xff\x00\x00\x00\x00\xb0\xaf\xba\xb1x"), sd("unknown", adbMsg("XXXX", 0, 0, "data")), sd("open nonul", adbMsg("OPEN", 1, 0, "shell:ls")), sd("wrte empty", adbMsg("WRTE", 1, 1, "")),
	}
	m["echo-tcp"] = []seed{sd("hello", "hello"), sd("big", strings.Repeat("e", 100000))}
	for _, n := range []string{"ssh-auth", "ssh-simulator"} {
		m[n] = []seed{sd("banner", "SSH-2.0-lab\r\n"), sd("banner1.99", "SSH-1.99-x\r\n"), sd("banner bad", "SSH-9\r\n"), sd("no banner", "\x00\x00\x00\x0c\x0a\x14"), sd("banner long", "SSH-2.0-"+strings.Repeat("x", 300)+"\r\n"),
			sd("banner+kex garbage", "SSH-2.0-lab\r\n\x00\x00\x00\x1c\x0a\x14"+strings.Repeat("\x00", 26)), sd("banner+len huge", "SSH-2.0-lab\r\n\xff\xff\xff\xff\x00"), sd("banner+len 0", "SSH-2.0-lab\r\n\x00\x00\x00\x00"), sd("pre-banner lines", "hello\r\nworld\r\nSSH-2.0-x\r\n")}
	}
	m["https"] = []seed{sd("http", "GET / HTTP/1.1\r\nHost: h\r\n\r\n"), sd("tls alert", "\x15\x03\x01\x00\x02\x02\x28"), sd("tls hello trunc", "\x16\x03\x01\x00\x2f\x01\x00\x00\x2b\x03\x03"), sd("ssl2", "\x80\x2e\x01\x00\x02\x00\x15\x00\x00\x00\x10"),
		sd("rec len huge", "\x16\x03\x01\xff\xff"), sd("rec len 0", "\x16\x03\x01\x00\x00\x16\x03\x01\x00\x00"), sd("appdata", "\x17\x03\x03\x00\x01x"), sd("ccs", "\x14\x03\x03\x00\x01\x01")}
	return m
}

// udpSeeds: per UDP service.
func udpSeeds() map[string][]seed {
	m := map[string][]seed{}
	for _, g := range udpGrammars() {
		m[g.svc] = seedsFromGrammar(g)
	}
	m["tftp"] = append(m["tftp"], sd("data stray", "\x00\x03\x00\x01x"), sd("data empty", "\x00\x03\x00\x01"), sd("data hdr short", "\x00\x03\x00"), sd("ack", "\x00\x04\x00\x01"), sd("error", "\x00\x05\x00\x01x\x00"),
		sd("data full #1", "\x00\x03\x00\x01"+strings.Repeat("d", 512)), sd("data full #2", "\x00\x03\x00\x02"+strings.Repeat("e", 512)), sd("data block 0", "\x00\x03\x00\x00zero"), sd("data last #2", "\x00\x03\x00\x02end"),
		sd("rrq nonul", "\x00\x01file"), sd("rrq nomode", "\x00\x01file\x00"), sd("op 0", "\x00\x00"), sd("op 9", "\x00\x09abc"), sd("1 byte", "\x00"), sd("wrq+opts", "\x00\x02f\x00octet\x00blksize\x001024\x00"))
	m["dns"] = append(m["dns"], sd("hdr only", "\x12\x34\x01\x00\x00\x01\x00\x00\x00\x00\x00\x00"), sd("short", "\x12\x34\x01"), sd("ptr loop", "\x12\x34\x01\x00\x00\x01\x00\x00\x00\x00\x00\x00\xc0\x0c\x00\x01\x00\x01"),
		sd("many q", "\x12\x34\x01\x00\xff\xff\x00\x00\x00\x00\x00\x00\x01a\x00\x00\x01\x00\x01"), sd("label 63+", "\x12\x34\x01\x00\x00\x01\x00\x00\x00\x00\x00\x00\x7fabc\x00\x00\x01\x00\x01"), sd("response", "\x12\x34\x81\x80\x00\x01\x00\x01\x00\x00\x00\x00\x01a\x00\x00\x01\x00\x01\xc0\x0c\x00\x01\x00\x01\x00\x00\x00\x01\x00\x04\x01\x02\x03\x04"),
		sd("opt", "\x12\x34\x01\x00\x00\x01\x00\x00\x00\x00\x00\x01\x01a\x00\x00\x01\x00\x01\x00\x00\x29\x10\x00\x00\x00\x00\x00\x00\x00"))
	m["snmp"] = append(m["snmp"], seed{"v2c", berTLV(0x30, cat(berInt(1), berStr("public"), berTLV(0xa0, cat(berInt(1), berInt(0), berInt(0), berTLV(0x30, nil)))))}, seed{"v3", berTLV(0x30, cat(berInt(3), berTLV(0x30, cat(berInt(1), berInt(1500), berStr("\x04"), berInt(3))), berStr("x"), berStr("y")))},
		seed{"no pdu", berTLV(0x30, cat(berInt(0), berStr("public")))}, seed{"pdu empty", berTLV(0x30, cat(berInt(0), berStr("public"), berTLV(0xa0, nil)))}, seed{"not seq", berStr("x")}, seed{"trunc", []byte{0x30, 0x26, 0x02, 0x01}},
		seed{"indefinite", []byte{0x30, 0x80, 0x02, 0x01, 0x00, 0x00, 0x00}}, seed{"oid empty", berTLV(0x30, cat(berInt(0), berStr("c"), berTLV(0xa0, cat(berInt(1), berInt(0), berInt(0), berTLV(0x30, berTLV(0x30, cat(berTLV(0x06, nil), berTLV(0x05, nil))))))))},
		seed{"bulk", berTLV(0x30, cat(berInt(1), berStr("public"), berTLV(0xa5, cat(berInt(1), berInt(0), berInt(50), berTLV(0x30, berTLV(0x30, cat(berTLV(0x06, []byte{0x2b, 6, 1}), berTLV(0x05, nil))))))))},
		seed{"trap", berTLV(0x30, cat(berInt(0), berStr("public"), berTLV(0xa4, cat(berTLV(0x06, []byte{0x2b, 6}), berTLV(0x40, []byte{1, 2, 3, 4}), berInt(0), berInt(0), berTLV(0x43, []byte{1}), berTLV(0x30, nil)))))})
	m["counterstrike"] = append(m["counterstrike"], sd("short1", "\xff"), sd("short4", "\xff\xff\xff\xff"), sd("hdr fe", "\xfe\xff\xff\xff\x01\x02"), sd("challenge", "\xff\xff\xff\xffW"), sd("unknown", "\xff\xff\xff\xffZzz"), sd("ping", "\xff\xff\xff\xffi"), sd("log", "\xff\xff\xff\xffRlog"), sd("rcon", "\xff\xff\xff\xffrcon 1 \"p\" status\n"))
	m["memcached-udp"] = append(m["memcached-udp"], sd("no hdr", "stats\r\n"), sd("hdr only", "\x00\x01\x00\x00\x00\x01\x00\x00"), sd("hdr short", "\x00\x01\x00"), sd("hdr+noeol", "\x00\x01\x00\x00\x00\x01\x00\x00stats"), sd("set neg", "\x00\x01\x00\x00\x00\x01\x00\x00set k 0 0 -1\r\n"),
		sd("set short", "\x00\x01\x00\x00\x00\x01\x00\x00set k 0 0 10\r\nab"), sd("many", "\x00\x01\x00\x00\x00\x01\x00\x00"+strings.Repeat("stats\r\n", 6)))
	m["ntp"] = []seed{sd("client", "\x1b"+strings.Repeat("\x00", 47)), sd("monlist", "\x17\x00\x03\x2a"+strings.Repeat("\x00", 4)), sd("short", "\x1b")}
	m["echo"] = append(m["echo"], sd("empty", ""), sd("big", strings.Repeat("e", 65000)))
	return m
}

var rawAlphabet = []byte{0x00, 0x01, 0x03, 0x0a, 0x0d, 0x16, 0x20, 0x2a, 0x30, 0x41, 0x7f, 0x80, 0xa0, 0xfe, 0xff, 0x53}

func echoProbe(c *core.Ctx, s *lab.Server, svc, after string) bool {
	conn := s.DialTCP(serverIP, svcSpecs["echo-tcp"].port, "10.2.0.1", 50000)
	conn.Send([]byte("ping"))
	lab.Quiesce()
	ok := string(conn.Output()) == "ping"
	conn.CloseWrite()
	lab.Quiesce()
	if !ok {
		c.Violationf("C01:"+svc+":not-serving", "%s: after %s a fresh connection to the echo port is no longer served", svc, after)
	}
	return ok
}

// tcpScenario: one connection, segments delivered lock-step, then close.
func tcpScenario(c *core.Ctx, s *lab.Server, svc, class, desc string, segs [][]byte) {
	c.Mark(class, fmt.Sprintf("%s %s: %s", svc, class, desc))
	conn := dial(s, svc, 0)
	lab.Quiesce()
	for _, sg := range segs {
		conn.Send(sg)
		lab.Quiesce()
		c.Count("transitions", 1)
	}
	conn.CloseWrite()
	settleConn(conn)
	c.Count("executions", 1)
	lab.ResetEvents()
}

// udpSource numbers the scenarios: every scenario sends from its own source address, because the
// amplification limiter of the UDP services admits four datagrams per source address and ten
// minutes and drops the rest before they are decoded.
var udpSource int

func udpScenario(c *core.Ctx, s *lab.Server, svc, class, desc string, dgrams [][]byte) {
	c.Mark(class, fmt.Sprintf("%s %s: %s", svc, class, desc))
	sp := svcSpecs[svc]
	udpSource++
	ip, port := fmt.Sprintf("10.%d.%d.%d", 64+(udpSource>>16)&63, (udpSource>>8)&255, udpSource&255), 40000
	for _, d := range dgrams {
		s.SendUDP(serverIP, sp.port, ip, port, d)
		lab.Quiesce()
		c.Count("transitions", 1)
	}
	c.Count("executions", 1)
	lab.ResetEvents()
}

func qs(b []byte) string { return fmt.Sprintf("%q", trunc(string(b), 120)) }

func runC01(c *core.Ctx) {
	tcp := tcpSeeds()
	udp := udpSeeds()
	var tcpNames, udpNames []string
	for _, n := range []string{"adb", "cwmp", "docker", "echo-tcp", "elasticsearch", "eos", "ethereum", "ftp", "http", "https", "ipp", "ldap", "memcached", "redis", "smtp", "ssh-auth", "ssh-simulator", "telnet", "vnc"} {
		tcpNames = append(tcpNames, n)
	}
	for _, n := range []string{"counterstrike", "dns", "echo", "memcached-udp", "ntp", "snmp", "tftp"} {
		udpNames = append(udpNames, n)
	}
	depth := 2
	if c.Thorough() {
		depth = 3
	}

	for _, svc := range tcpNames {
		svc := svc
		seeds := tcp[svc]
		withSrv := func(name string, f func(s *lab.Server)) {
			c.Case(svc+"/"+name, func() {
				s := startSvc(svc, "echo-tcp")
				f(s)
				echoProbe(c, s, svc, name)
				s.Stop()
				c.Outcome(svc, name)
			})
		}
		// (i) seed sequences, lock-step
		for i, a := range seeds {
			i, a := i, a
			withSrv(fmt.Sprintf("seq/%d:%s", i, a.name), func(s *lab.Server) {
				tcpScenario(c, s, svc, "seed", a.name+" "+qs(a.b), [][]byte{a.b})
				tcpScenario(c, s, svc, "seed-noclose-dribble", a.name, split(a.b, 7))
				if depth >= 2 && len(a.b) < 20000 {
					for _, b := range seeds {
						if len(b.b) >= 20000 {
							continue
						}
						tcpScenario(c, s, svc, "seq2", a.name+" ; "+b.name, [][]byte{a.b, b.b})
						if depth >= 3 && len(a.b)+len(b.b) < 600 {
							for _, d := range seeds {
								if len(d.b) < 300 {
									tcpScenario(c, s, svc, "seq3", a.name+" ; "+b.name+" ; "+d.name, [][]byte{a.b, b.b, d.b})
								}
							}
						}
					}
				}
			})
		}
		// (ii) truncations and (iii) byte mutations of every seed
		for i, a := range seeds {
			i, a := i, a
			if len(a.b) > 1500 {
				continue
			}
			withSrv(fmt.Sprintf("trunc/%d:%s", i, a.name), func(s *lab.Server) {
				for p := 1; p < len(a.b); p++ {
					tcpScenario(c, s, svc, "truncate", fmt.Sprintf("%s cut after %d of %d bytes %s", a.name, p, len(a.b), qs(a.b[:p])), [][]byte{a.b[:p]})
				}
			})
			if len(a.b) <= 160 {
				withSrv(fmt.Sprintf("mutate/%d:%s", i, a.name), func(s *lab.Server) {
					for p := 0; p < len(a.b); p++ {
						for _, v := range []byte{0x00, 0xff, 0x80, a.b[p] + 1, a.b[p] - 1} {
							if v == a.b[p] {
								continue
							}
							m := append([]byte(nil), a.b...)
							m[p] = v
							if svc == "ldap" && berHugePrimitive(m) {
								continue // see berHugePrimitive
							}
							tcpScenario(c, s, svc, "mutate", fmt.Sprintf("%s byte %d := %#02x %s", a.name, p, v, qs(m)), [][]byte{m})
						}
					}
				})
			}
		}
		// (iii-b) every decimal field of every (text) seed replaced by boundary values
		for i, a := range seeds {
			i, a := i, a
			if len(a.b) > 2000 {
				continue
			}
			runs := digitRuns(a.b)
			if len(runs) == 0 {
				continue
			}
			withSrv(fmt.Sprintf("numeric/%d:%s", i, a.name), func(s *lab.Server) {
				for _, r := range runs {
					old := string(a.b[r[0]:r[1]])
					for _, v := range numericBoundaries(old) {
						m := append(append(append([]byte(nil), a.b[:r[0]]...), v...), a.b[r[1]:]...)
						tcpScenario(c, s, svc, "numeric", fmt.Sprintf("%s decimal field %q at byte %d := %s %s", a.name, old, r[0], v, qs(m)), [][]byte{m})
					}
				}
			})
		}
		// (iv) raw strings
		withSrv("raw/1", func(s *lab.Server) {
			tcpScenario(c, s, svc, "raw", "empty (connect, close)", nil)
			for a := 0; a < 256; a++ {
				tcpScenario(c, s, svc, "raw", fmt.Sprintf("%#02x", a), [][]byte{{byte(a)}})
			}
		})
		if c.Thorough() {
			for a := 0; a < 256; a++ {
				a := a
				withSrv(fmt.Sprintf("raw/2/%02x", a), func(s *lab.Server) {
					for b := 0; b < 256; b++ {
						tcpScenario(c, s, svc, "raw", fmt.Sprintf("%#02x %#02x", a, b), [][]byte{{byte(a), byte(b)}})
					}
				})
			}
		} else {
			withSrv("raw/2", func(s *lab.Server) {
				for _, a := range rawAlphabet {
					for _, b := range rawAlphabet {
						tcpScenario(c, s, svc, "raw", fmt.Sprintf("%#02x %#02x", a, b), [][]byte{{a, b}})
					}
				}
			})
		}
		// (vi) two concurrent sessions, step interleavings of (dial, seed, close) x 2
		withSrv("concurrent", func(s *lab.Server) {
			lim := len(seeds)
			if lim > 12 && !c.Thorough() {
				lim = 12
			}
			for i := 0; i < lim; i++ {
				for j := 0; j < lim; j++ {
					a, b := seeds[i], seeds[j]
					if len(a.b) > 5000 || len(b.b) > 5000 {
						continue
					}
					c.Mark("concurrent", fmt.Sprintf("%s two sessions: %s || %s", svc, a.name, b.name))
					for _, order := range [][]int{{0, 1, 0, 1, 0, 1}, {0, 1, 1, 0, 0, 1}, {0, 1, 0, 1, 1, 0}, {0, 0, 1, 1, 0, 1}, {0, 1, 1, 1, 0, 0}} {
						c1, c2 := dial(s, svc, 1), dial(s, svc, 2)
						lab.Quiesce()
						st := [2]int{1, 1}
						for _, who := range order[2:] {
							cn, sd := c1, a
							if who == 1 {
								cn, sd = c2, b
							}
							if st[who] == 1 {
								cn.Send(sd.b)
							} else {
								cn.CloseWrite()
							}
							st[who]++
							lab.Quiesce()
							c.Count("transitions", 1)
						}
						c1.CloseWrite()
						c2.CloseWrite()
						settleConn(c1)
						settleConn(c2)
						c.Count("executions", 1)
						lab.ResetEvents()
					}
				}
			}
		})
	}

	// nesting-depth ladders for the recursive decoders
	ladder := []int{10, 1000, 100000}
	if c.Thorough() {
		ladder = append(ladder, 3000000)
	}
	for _, n := range ladder {
		n := n
		c.Case(fmt.Sprintf("ladder/redis/%d", n), func() {
			s := startSvc("redis", "echo-tcp")
			tcpScenario(c, s, "redis", "nesting", fmt.Sprintf("redis array nested %d deep", n), [][]byte{[]byte(strings.Repeat("*1\r\n", n) + "$1\r\na\r\n")})
			echoProbe(c, s, "redis", "nesting ladder")
			s.Stop()
		})
		if n == 100000 && !c.Thorough() {
			// the recursive redis parser needs millions of levels to exhaust the 1 GB goroutine stack: also in the quick tier
			c.Case("ladder/redis/3000000", func() {
				s := startSvc("redis", "echo-tcp")
				tcpScenario(c, s, "redis", "nesting", "redis array nested 3000000 deep", [][]byte{[]byte(strings.Repeat("*1\r\n", 3000000) + "$1\r\na\r\n")})
				echoProbe(c, s, "redis", "nesting ladder")
				s.Stop()
			})
		}
		c.Case(fmt.Sprintf("ladder/ldap/%d", n), func() {
			s := startSvc("ldap", "echo-tcp")
			// nested constructed sequences with indefinite-free definite lengths: build inside-out up to the BER reader's limits
			inner := []byte{0x02, 0x01, 0x01}
			depthN := n
			if depthN > 2000 {
				// the BER library re-copies the encoded children at every level (quadratic in the
				// nesting depth, but bounded): deeper definite-length nesting only measures that
				depthN = 2000
			}
			for i := 0; i < depthN; i++ {
				inner = berTLV(0x30, inner)
			}
			tcpScenario(c, s, "ldap", "nesting", fmt.Sprintf("BER sequences nested %d deep (%d bytes)", depthN, len(inner)), [][]byte{inner})
			// indefinite-length nesting is 2 bytes per level
			tcpScenario(c, s, "ldap", "nesting", fmt.Sprintf("BER indefinite-length sequences nested %d deep", n), [][]byte{bytes.Repeat([]byte{0x30, 0x80}, n)})
			// nested search filters
			f := berTLV(0x87, []byte("cn"))
			fd := n
			if fd > 5000 {
				fd = 5000
			}
			for i := 0; i < fd; i++ {
				f = berTLV(0xa2, f)
			}
			tcpScenario(c, s, "ldap", "nesting", fmt.Sprintf("search filter NOT nested %d deep", fd), [][]byte{ldapMsg(1, berTLV(0x63, cat(berStr(""), berTLV(0x0a, []byte{0}), berTLV(0x0a, []byte{0}), berInt(0), berInt(0), berTLV(0x01, []byte{0}), f, berTLV(0x30, nil))))})
			echoProbe(c, s, "ldap", "nesting ladder")
			s.Stop()
		})
		for _, svc := range []string{"ethereum", "eos", "cwmp", "docker", "elasticsearch"} {
			svc := svc
			c.Case(fmt.Sprintf("ladder/%s/%d", svc, n), func() {
				s := startSvc(svc, "echo-tcp")
				tcpScenario(c, s, svc, "nesting", fmt.Sprintf("JSON arrays nested %d deep", n), [][]byte{[]byte(httpReq("POST", "/", "h", []string{"Content-Type: application/json"}, strings.Repeat("[", n)+strings.Repeat("]", n), false))})
				tcpScenario(c, s, svc, "nesting", fmt.Sprintf("JSON objects nested %d deep", n), [][]byte{[]byte(httpReq("POST", "/", "h", []string{"Content-Type: application/json"}, strings.Repeat(`{"a":`, n)+"1"+strings.Repeat("}", n), false))})
				tcpScenario(c, s, svc, "nesting", fmt.Sprintf("XML elements nested %d deep", n), [][]byte{[]byte(httpReq("POST", "/", "h", []string{"Content-Type: text/xml"}, strings.Repeat("<a>", n)+strings.Repeat("</a>", n), false))})
				echoProbe(c, s, svc, "nesting ladder")
				s.Stop()
			})
		}
		c.Case(fmt.Sprintf("ladder/snmp/%d", n), func() {
			s := startSvc("snmp", "echo-tcp")
			dn := n
			if dn > 20000 {
				dn = 20000
			}
			inner := []byte{0x05, 0x00}
			for i := 0; i < dn && len(inner) < 60000; i++ {
				inner = berTLV(0x30, inner)
			}
			udpScenario(c, s, "snmp", "nesting", fmt.Sprintf("BER sequences nested (%d bytes)", len(inner)), [][]byte{inner})
			udpScenario(c, s, "snmp", "nesting", "BER indefinite nesting", [][]byte{bytes.Repeat([]byte{0x30, 0x80}, 30000)})
			echoProbe(c, s, "snmp", "nesting ladder")
			s.Stop()
		})
	}

	// UDP services
	for _, svc := range udpNames {
		svc := svc
		seeds := udp[svc]
		withSrv := func(name string, f func(s *lab.Server)) {
			c.Case(svc+"/"+name, func() {
				s := startSvc(svc, "echo-tcp")
				f(s)
				echoProbe(c, s, svc, name)
				s.Stop()
				c.Outcome(svc, name)
			})
		}
		withSrv("seeds", func(s *lab.Server) {
			for _, a := range seeds {
				udpScenario(c, s, svc, "seed", a.name+" "+qs(a.b), [][]byte{a.b})
				for _, b := range seeds {
					udpScenario(c, s, svc, "seq2", a.name+" ; "+b.name, [][]byte{a.b, b.b})
					if depth >= 3 || len(seeds) <= 24 { // triples from one source address (a stateful exchange: request, block, retransmission)
						for _, d := range seeds {
							udpScenario(c, s, svc, "seq3", a.name+" ; "+b.name+" ; "+d.name, [][]byte{a.b, b.b, d.b})
						}
					}
				}
			}
		})
		for i, a := range seeds {
			i, a := i, a
			if len(a.b) > 600 {
				continue
			}
			withSrv(fmt.Sprintf("trunc+mutate/%d:%s", i, a.name), func(s *lab.Server) {
				for p := 0; p < len(a.b); p++ {
					udpScenario(c, s, svc, "truncate", fmt.Sprintf("%s first %d of %d bytes %s", a.name, p, len(a.b), qs(a.b[:p])), [][]byte{a.b[:p]})
				}
				for p := 0; p < len(a.b) && len(a.b) <= 200; p++ {
					for _, v := range []byte{0x00, 0xff, 0x80, a.b[p] + 1, a.b[p] - 1} {
						if v == a.b[p] {
							continue
						}
						m := append([]byte(nil), a.b...)
						m[p] = v
						udpScenario(c, s, svc, "mutate", fmt.Sprintf("%s byte %d := %#02x %s", a.name, p, v, qs(m)), [][]byte{m})
					}
				}
			})
		}
		withSrv("raw", func(s *lab.Server) {
			udpScenario(c, s, svc, "raw", "empty datagram", [][]byte{{}})
			for a := 0; a < 256; a++ {
				udpScenario(c, s, svc, "raw", fmt.Sprintf("%#02x", a), [][]byte{{byte(a)}})
			}
			if c.Thorough() {
				for a := 0; a < 256; a++ {
					for b := 0; b < 256; b++ {
						udpScenario(c, s, svc, "raw", fmt.Sprintf("%#02x %#02x", a, b), [][]byte{{byte(a), byte(b)}})
					}
				}
			} else {
				for _, a := range rawAlphabet {
					for _, b := range rawAlphabet {
						udpScenario(c, s, svc, "raw", fmt.Sprintf("%#02x %#02x", a, b), [][]byte{{a, b}})
					}
				}
			}
		})
	}

	c01SSH(c)
	c.Sample(map[string]interface{}{"services_tcp": tcpNames, "services_udp": udpNames, "scenario_classes": []string{"seed", "seq2", "seq3", "truncate", "mutate", "raw", "nesting", "concurrent", "ssh-request"},
		"example": "vnc: 'RFB 003.008\\n' 01 | shared 01 | SetPixelFormat(true-colour=0) | FramebufferUpdateRequest(non-incremental)"})
}

func split(b []byte, n int) [][]byte {
	var out [][]byte
	for len(b) > n {
		out = append(out, b[:n])
		b = b[n:]
	}
	if len(b) > 0 {
		out = append(out, b)
	}
	if len(out) > 40 {
		out = out[:40]
	}
	return out
}

// c01SSH drives ssh-simulator and ssh-auth with the real SSH transport: every
// channel request type with raw payloads of length 0..9 and inconsistent
// length prefixes, channel-open extra data of length 0..9.
func c01SSH(c *core.Ctx) {
	payloads := [][]byte{}
	for n := 0; n <= 9; n++ {
		payloads = append(payloads, bytes.Repeat([]byte{0x00}, n))
	}
	payloads = append(payloads, sshString("TERM"), append(sshString("LANG"), sshString("C")...), []byte{0, 0, 0, 9, 'a'}, []byte{0xff, 0xff, 0xff, 0xff}, []byte{0x7f, 0xff, 0xff, 0xff, 'x'}, append(sshString("a"), 1, 2, 3),
		[]byte{0x80, 0, 0, 0}, []byte{0, 0, 0, 1})
	types := []string{"env", "exec", "subsystem", "pty-req", "shell", "tcpip-forward", "x11-req", "window-change", "unknown@lab"}
	for _, svc := range []string{"ssh-simulator", "ssh-auth"} {
		svc := svc
		for _, typ := range types {
			typ := typ
			c.Case(fmt.Sprintf("%s/ssh-request/%s", svc, typ), func() {
				s := startSvc(svc, "echo-tcp")
				for _, p := range payloads {
					c.Mark("ssh-request", fmt.Sprintf("%s: session channel request %q with payload %x", svc, typ, p))
					a := sshConnect(s, svc, 0, "root", []string{"root"})
					if a.conn != nil {
						sshSessionRequests(a, []sshReq{{typ: typ, wantReply: true, payload: p}, {typ: "shell", wantReply: true, data: []byte("ls\nexit\n")}})
					}
					a.close()
					c.Count("executions", 1)
					c.Count("transitions", 3)
					lab.ResetEvents()
				}
				echoProbe(c, s, svc, "ssh requests "+typ)
				s.Stop()
				c.Outcome(svc, typ)
			})
		}
		c.Case(fmt.Sprintf("%s/ssh-channel-open", svc), func() {
			s := startSvc(svc, "echo-tcp")
			for _, ct := range []string{"direct-tcpip", "forwarded-tcpip", "x11", "session", "weird"} {
				for _, p := range payloads {
					c.Mark("ssh-channel-open", fmt.Sprintf("%s: channel open %q with extra data %x", svc, ct, p))
					a := sshConnect(s, svc, 0, "root", []string{"root"})
					if a.conn != nil {
						done := make(chan struct{})
						go func() {
							ch, in, err := a.conn.OpenChannel(ct, p)
							if err == nil {
								go func() {
									for range in {
									}
								}()
								ch.Close()
							}
							close(done)
						}()
						lab.Quiesce()
					}
					a.close()
					c.Count("executions", 1)
					lab.ResetEvents()
				}
			}
			echoProbe(c, s, svc, "ssh channel opens")
			s.Stop()
		})
	}
}

// digitRuns returns the [start,end) offsets of the maximal runs of ASCII digits (at most 12 digits, at most 8 runs).
func digitRuns(b []byte) [][2]int {
	var out [][2]int
	for i := 0; i < len(b); {
		if b[i] < '0' || b[i] > '9' {
			i++
			continue
		}
		j := i
		for j < len(b) && b[j] >= '0' && b[j] <= '9' {
			j++
		}
		if j-i <= 12 && len(out) < 8 {
			out = append(out, [2]int{i, j})
		}
		i = j
	}
	return out
}

func numericBoundaries(old string) []string {
	vals := []string{"0", "1", "255", "256", "65535", "65536", "2147483647", "2147483648", "4294967295", "4294967296", "9223372036854775807", "9223372036854775808", "18446744073709551615", "99999999999999999999", "-1",
		"03", "+3", "0x10", "1h", "abc", "1e3", "1.5"} // accepted by some integer parsers, not numbers to others
	if n, err := strconv.ParseInt(old, 10, 64); err == nil {
		vals = append(vals, strconv.FormatInt(n+1, 10))
		if n > 0 {
			vals = append(vals, strconv.FormatInt(n-1, 10))
		}
		vals = append(vals, strconv.FormatInt(n*1000000+7, 10))
	}
	var out []string
	for _, v := range vals {
		if v != old {
			out = append(out, v)
		}
	}
	return out
}

// berHugePrimitive reports whether a BER message announces, for a primitive element, a definite
// length between 256 MiB and 1 TiB. The BER reader honeytrap's LDAP service uses allocates the
// announced length of a primitive element in one piece before it reads the content; the buffer is
// released when the connection ends, so this is a bounded one-off cost and not the growth "without
// further client input" C01 speaks of, but zeroing 4 GiB costs anything from a fraction of a second
// to more than the watchdog's CPU budget depending on the machine, and a verdict must not depend on
// the machine. Such inputs are therefore not sent (a 16 MiB one is: seed "len 16m primitive");
// lengths the allocator refuses outright (8-byte lengths) stay in.
func berHugePrimitive(m []byte) bool {
	for i := 0; i < len(m); {
		tag := m[i]
		i++
		if tag&0x1f == 0x1f { // long-form tag number
			for i < len(m) && m[i]&0x80 != 0 {
				i++
			}
			i++
		}
		if i >= len(m) {
			return false
		}
		l := int(m[i])
		i++
		n := uint64(l)
		if l&0x80 != 0 {
			k := l & 0x7f
			if k == 0 { // indefinite: contents follow
				continue
			}
			if k > 8 || i+k > len(m) {
				return false
			}
			n = 0
			for _, b := range m[i : i+k] {
				n = n<<8 | uint64(b)
			}
			i += k
		}
		if tag&0x20 == 0 { // primitive
			if n >= 1<<28 && n < 1<<40 {
				return true
			}
			if n > uint64(len(m)) {
				return false
			}
			i += int(n)
		}
	}
	return false
}

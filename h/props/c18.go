package props

import (
	"bufio"
	"bytes"
	"crypto/sha256"
	"crypto/tls"
	"encoding/json"
	"fmt"
	htcmd "github.com/honeytrap/honeytrap/cmd/honeytrap"
	"io"
	"net"
	"os"
	"os/exec"
	"path/filepath"
	"regexp"
	"sort"
	"strconv"
	"strings"
	"time"

	"golang.org/x/crypto/ssh"

	"github.com/honeytrap/honeytrap/event"
	"github.com/honeytrap/honeytrap/listener/agent"

	"verif/h/core"
	"verif/h/lab"
	"verif/h/memconn"
)

// C18 — sensor identity survives restarts and interrupted first starts.
//
// Every start is a separate child process (badger is a process global): the
// child runs the real start-up sequence of cmd/honeytrap (config, data
// directory, token; then Run) with the harness plug-ins and reports the
// identity it presents: token on a captured event, SSH host key seen by an SSH
// client, certificates presented after AUTH TLS / STARTTLS / LDAP StartTLS, and
// the agent server key.
//
// (1) explicit-state search over data-directory states: a state is the set of
//     identity items that exist (= union of the service sets started so far);
//     directories are copied, so successors really start from every reachable
//     state; in every start each item already present must equal its first value.
// (2) crash points of the token write path: the first start is traced with
//     strace; every prefix of the syscall log on <datadir>/token*, with every
//     write cut at every byte, is materialised as an on-disk state, followed by
//     two restarts.

func init() {
	register("C18", driver{run: runC18, noBubble: true})
	register("C18/child", driver{run: runC18Child, noBubble: true})
	register("C18/cli", driver{run: runC18CLI, noBubble: true})
}

type identity struct {
	Token     string `json:"token"`
	TokenFile string `json:"token_file"`
	SSH       string `json:"ssh,omitempty"`
	FTP       string `json:"ftp,omitempty"`
	SMTP      string `json:"smtp,omitempty"`
	LDAP      string `json:"ldap,omitempty"`
	Agent     string `json:"agent,omitempty"`
	Err       string `json:"err,omitempty"`
}

func (id identity) items() map[string]string {
	m := map[string]string{"token": id.Token}
	for k, v := range map[string]string{"ssh": id.SSH, "ftp": id.FTP, "smtp": id.SMTP, "ldap": id.LDAP, "agent": id.Agent} {
		if v != "" {
			m[k] = v
		}
	}
	return m
}

// ---------------------------------------------------------------- child

func readUntil(c *memconn.End, want string, cap time.Duration) string {
	var got []byte
	buf := make([]byte, 4096)
	deadline := time.Now().Add(cap)
	for time.Now().Before(deadline) {
		c.SetReadDeadline(time.Now().Add(200 * time.Millisecond))
		n, _ := c.Read(buf)
		got = append(got, buf[:n]...)
		if strings.Contains(string(got), want) {
			break
		}
	}
	c.SetReadDeadline(time.Time{})
	return string(got)
}

func tlsFingerprint(c *memconn.End) (string, error) {
	tc := tls.Client(c, &tls.Config{InsecureSkipVerify: true})
	c.SetReadDeadline(time.Now().Add(30 * time.Second))
	if err := tc.Handshake(); err != nil {
		return "", err
	}
	st := tc.ConnectionState()
	if len(st.PeerCertificates) == 0 {
		return "", fmt.Errorf("no certificate")
	}
	h := sha256.Sum256(st.PeerCertificates[0].Raw)
	return fmt.Sprintf("%x", h[:8]), nil
}

func runC18Child(c *core.Ctx) {
	svcs := strings.Fields(strings.ReplaceAll(os.Getenv("VF_SERVICES"), ",", " "))
	has := func(n string) bool {
		for _, s := range svcs {
			if s == n {
				return true
			}
		}
		return false
	}
	var id identity
	out := os.Getenv("VF_CHILD_OUT")
	defer func() {
		if r := recover(); r != nil {
			id.Err = fmt.Sprint("panic: ", r)
		}
		b, _ := json.Marshal(id)
		os.WriteFile(out, b, 0644)
	}()
	var names []string
	toml := "[service.emit]\ntype=\"verif-emit\"\n\n"
	for _, n := range []string{"ssh", "ftp", "smtp", "ldap"} {
		if has(n) {
			key := map[string]string{"ssh": "ssh-simulator", "ftp": "ftp", "smtp": "smtp", "ldap": "ldap"}[n]
			names = append(names, key)
		}
	}
	toml += svcToml(names...)
	lab.ResetStubs()
	s, err := lab.Start(toml) // server.New(WithConfig, WithDataDir, WithToken) then Run: the order of cmd/honeytrap
	if err != nil {
		id.Err = err.Error()
		return
	}
	if !waitUntil(30*time.Second, func() bool { return s.Attach() == nil }) {
		id.Err = "server did not come up"
		return
	}
	if b, err := os.ReadFile(filepath.Join(lab.DataDir(), "token")); err == nil {
		id.TokenFile = string(b)
	}
	// token on an event
	em := lab.Emitters()
	if len(em) == 1 && em[0].Ch != nil {
		em[0].Ch.Send(event.New(event.Category("c18")))
		for _, e := range lab.Events("cap") {
			if lab.Str(e, "category") == "c18" {
				id.Token = lab.Str(e, "token")
			}
		}
	}
	if has("ssh") {
		sp := svcSpecs["ssh-simulator"]
		cli := s.DialPair(serverIP, sp.port, "10.1.0.10", 40000)
		cfg := &ssh.ClientConfig{User: "x", HostKeyCallback: func(h string, r net.Addr, k ssh.PublicKey) error {
			id.SSH = ssh.FingerprintSHA256(k)
			return nil
		}, Timeout: 20 * time.Second}
		cli.SetReadDeadline(time.Now().Add(30 * time.Second))
		if cn, _, _, err := ssh.NewClientConn(cli, "lab", cfg); err == nil {
			cn.Close()
		}
		cli.Close()
	}
	if has("ftp") {
		cli := s.DialPair(serverIP, svcSpecs["ftp"].port, "10.1.0.10", 40001)
		readUntil(cli, "220", 20*time.Second)
		cli.Write([]byte("AUTH TLS\r\n"))
		readUntil(cli, "234", 20*time.Second)
		fp, err := tlsFingerprint(cli)
		if err != nil {
			id.Err += " ftp: " + err.Error()
		}
		id.FTP = fp
		cli.Close()
	}
	if has("smtp") {
		cli := s.DialPair(serverIP, svcSpecs["smtp"].port, "10.1.0.10", 40002)
		readUntil(cli, "220", 20*time.Second)
		cli.Write([]byte("EHLO c18\r\n"))
		readUntil(cli, "250 ", 20*time.Second)
		cli.Write([]byte("STARTTLS\r\n"))
		readUntil(cli, "220", 20*time.Second)
		fp, err := tlsFingerprint(cli)
		if err != nil {
			id.Err += " smtp: " + err.Error()
		}
		id.SMTP = fp
		cli.Close()
	}
	if has("ldap") {
		cli := s.DialPair(serverIP, svcSpecs["ldap"].port, "10.1.0.10", 40003)
		cli.Write(ldapExtended(1, "1.3.6.1.4.1.1466.20037"))
		readUntil(cli, "x", 20*time.Second) // 0x78 = ExtendedResponse tag
		fp, err := tlsFingerprint(cli)
		if err != nil {
			id.Err += " ldap: " + err.Error()
		}
		id.LDAP = fp
		cli.Close()
	}
	if has("agent") {
		if st, err := agent.Storage(); err == nil {
			if kp, err := st.KeyPair(); err == nil {
				id.Agent = kp.ExportPublicKey()
			} else {
				id.Err += " agent: " + err.Error()
			}
		}
	}
}

// ---------------------------------------------------------------- parent

var childSeq int

// c18ChildEnv: extra environment of the next child starts (the crash point of the instrumented build).
var c18ChildEnv []string

// startChild runs one honeytrap start on dataDir with the given services and returns what it presented.
func startChild(c *core.Ctx, dataDir string, services []string, strace string) (identity, error) {
	childSeq++
	out := filepath.Join(filepath.Dir(dataDir), fmt.Sprintf("child-%d.json", childSeq))
	os.Remove(out)
	args := []string{os.Args[0], "-test.run", "^TestWorker$", "-test.timeout", "0"}
	if strace != "" {
		args = append([]string{"strace", "-f", "-o", strace, "-s", "64", "-e", "trace=openat,open,creat,write,rename,renameat,renameat2,fsync,fdatasync,close,unlink,unlinkat,ftruncate"}, args...)
	}
	cmd := exec.Command(args[0], args[1:]...)
	cmd.Env = append(append(os.Environ(), c18ChildEnv...), "VF_PROP=C18/child", "VF_DATADIR="+dataDir, "VF_SERVICES="+strings.Join(services, ","), "VF_CHILD_OUT="+out, "VF_OUT=/dev/null", "VF_SHARD=0", "VF_NSHARDS=1", "VF_ONLY=-1", "VF_START=0")
	cmd.Stdout, cmd.Stderr = nil, nil
	done := make(chan error, 1)
	if err := cmd.Start(); err != nil {
		return identity{}, err
	}
	go func() { done <- cmd.Wait() }()
	waitUntil(180*time.Second, func() bool {
		select {
		case err := <-done:
			done <- err
			return true
		default:
			return false
		}
	})
	select {
	case <-done:
	default:
		cmd.Process.Kill()
		return identity{}, fmt.Errorf("child start did not finish within 180 s")
	}
	c.Count("transitions", 1)
	var id identity
	b, err := os.ReadFile(out)
	if err != nil {
		return id, fmt.Errorf("child wrote no result: %v", err)
	}
	os.Remove(out)
	err = json.Unmarshal(b, &id)
	return id, err
}

func copyDir(src, dst string) error {
	return filepath.Walk(src, func(p string, info os.FileInfo, err error) error {
		if err != nil {
			return err
		}
		rel, _ := filepath.Rel(src, p)
		t := filepath.Join(dst, rel)
		if info.IsDir() {
			return os.MkdirAll(t, 0755)
		}
		if !info.Mode().IsRegular() {
			return nil
		}
		in, err := os.Open(p)
		if err != nil {
			return err
		}
		defer in.Close()
		out, err := os.OpenFile(t, os.O_CREATE|os.O_WRONLY|os.O_TRUNC, info.Mode())
		if err != nil {
			return err
		}
		defer out.Close()
		_, err = io.Copy(out, in)
		return err
	})
}

var tokenOK = regexp.MustCompile(`^[0-9a-v]{20}$`)

func runC18(c *core.Ctx) {
	base := filepath.Join(lab.ScratchDir(), "c18")
	os.MkdirAll(base, 0755)
	sets := [][]string{{}, {"ssh"}, {"ftp"}, {"smtp"}, {"ldap"}, {"agent"}, {"ssh", "ftp", "smtp", "ldap", "agent"}}
	depth := 3
	if c.Thorough() {
		depth = 5
	}

	// ---- (1) explicit-state search, one case per first service set
	for fi, first := range sets {
		fi, first := fi, first
		c.Case(fmt.Sprintf("restarts/first=%v", first), func() {
			type state struct {
				key   string            // sorted union of services started so far
				dir   string            // snapshot of the data directory in this state
				known map[string]string // first observed value of every identity item
				path  []string
			}
			root := filepath.Join(base, fmt.Sprintf("bfs-%d", fi))
			os.RemoveAll(root)
			os.MkdirAll(root, 0755)
			nstate := 0
			snap := func(from string) string {
				nstate++
				d := filepath.Join(root, fmt.Sprintf("state-%d", nstate), "data")
				os.MkdirAll(filepath.Dir(d), 0755)
				if from != "" {
					copyDir(from, d)
				}
				return d
			}
			union := func(a string, s []string) string {
				m := map[string]bool{}
				for _, x := range strings.Fields(a) {
					m[x] = true
				}
				for _, x := range s {
					m[x] = true
				}
				var k []string
				for x := range m {
					k = append(k, x)
				}
				sort.Strings(k)
				return strings.Join(k, " ")
			}
			// transition: copy the state's directory, start with S, compare, snapshot the result
			step := func(st *state, S []string) (*state, bool) {
				work := snap(st.dir)
				id, err := startChild(c, work, S, "")
				c.Count("executions", 1)
				desc := fmt.Sprintf("history %v then start with services %v", st.path, S)
				if err != nil || (id.Err != "" && strings.Contains(id.Err, "panic")) {
					c.Violationf("C18:start-failed", "%s: %v %s", desc, err, id.Err)
					return nil, false
				}
				nk := map[string]string{}
				for k, v := range st.known {
					nk[k] = v
				}
				if !tokenOK.MatchString(id.Token) {
					c.Violationf("C18:token-malformed", "%s: events carry token %q, which is not a well-formed non-empty sensor id", desc, id.Token)
				}
				for item, v := range id.items() {
					if old, ok := nk[item]; ok && old != v {
						c.Violationf("C18:identity-changed:"+item, "%s: %s is now %q, it was first generated as %q", desc, item, trunc(v, 40), trunc(old, 40))
					}
					if _, ok := nk[item]; !ok {
						nk[item] = v
					}
				}
				for _, svc := range S {
					if id.items()[svc] == "" {
						c.Violationf("C18:identity-missing:"+svc, "%s: could not observe the %s identity (%s)", desc, svc, id.Err)
					}
				}
				return &state{key: union(st.key, S), dir: work, known: nk, path: append(append([]string(nil), st.path...), fmt.Sprint(S))}, true
			}
			init := &state{key: "", dir: "", known: map[string]string{}}
			s1, ok := step(init, first)
			if !ok {
				return
			}
			seen := map[string]bool{s1.key: true}
			frontier := []*state{s1}
			states := 1
			for level := 1; level < depth && len(frontier) > 0; level++ {
				var next []*state
				for _, st := range frontier {
					for _, S := range sets {
						ns, ok := step(st, S)
						if !ok {
							continue
						}
						if !seen[ns.key] {
							seen[ns.key] = true
							states++
							next = append(next, ns)
						}
					}
				}
				frontier = next
			}
			c.Count("states", int64(states))
			c.Outcome("restarts", fmt.Sprint(first), fmt.Sprint(states))
			if c.WantSample() {
				c.Sample(map[string]interface{}{"part": "restart-bfs", "first_start_services": first, "states_reached": keysOf(seen), "identity_items_tracked": s1.known})
			}
			os.RemoveAll(root)
		})
	}

	// ---- (2) crash points of the token write path
	c.Case("crash/token", func() {
		root := filepath.Join(base, "crash")
		os.RemoveAll(root)
		ref := filepath.Join(root, "ref", "data")
		os.MkdirAll(filepath.Dir(ref), 0755)
		trace := filepath.Join(root, "trace.txt")
		id0, err := startChild(c, ref, []string{"ssh"}, trace)
		if err != nil {
			c.Violationf("C18:crash:harness", "traced first start failed: %v", err)
			return
		}
		ops := parseTokenTrace(trace, ref)
		if len(ops) == 0 {
			c.Violationf("C18:crash:harness", "no file operations on %s/token* were traced", ref)
			return
		}
		states := tokenCrashStates(ops)
		c.Note(fmt.Sprintf("token write path as traced: %v; %d crash states", ops, len(states)))
		for si, stt := range states {
			work := filepath.Join(root, fmt.Sprintf("crash-%d", si), "data")
			os.MkdirAll(filepath.Dir(work), 0755)
			copyDir(ref, work)
			// replace the token files by the crash state
			ents, _ := filepath.Glob(filepath.Join(work, "token*"))
			for _, e := range ents {
				os.Remove(e)
			}
			for name, content := range stt.files {
				os.WriteFile(filepath.Join(work, name), []byte(content), 0600)
			}
			a, err1 := startChild(c, work, []string{"ssh"}, "")
			b, err2 := startChild(c, work, []string{}, "")
			c.Count("executions", 1)
			desc := fmt.Sprintf("kill during the first start %s (token files on disk: %v), then two restarts", stt.desc, stt.files)
			if err1 != nil || err2 != nil {
				c.Violationf("C18:crash:start-failed", "%s: %v %v", desc, err1, err2)
				continue
			}
			if !tokenOK.MatchString(a.Token) {
				c.Violationf("C18:crash:token-malformed", "%s: the next start runs with token %q (not a well-formed, non-empty sensor id)", desc, a.Token)
			}
			if a.Token != b.Token {
				c.Violationf("C18:crash:token-unstable", "%s: the two following starts use different tokens %q and %q", desc, a.Token, b.Token)
			}
			if a.SSH != id0.SSH {
				c.Violationf("C18:crash:identity-changed:ssh", "%s: the SSH host key changed", desc)
			}
			c.Outcome("crash", stt.desc)
			os.RemoveAll(filepath.Dir(work))
		}
		c.Count("states", int64(len(states)))
		c.Sample(map[string]interface{}{"part": "crash-points", "traced_token_operations": fmt.Sprint(ops), "crash_states": len(states)})
		os.RemoveAll(root)
	})
	c18CLI(c, base)
}

// ---------------------------------------------------------------- strace parsing

type fileOp struct {
	kind string // create write rename unlink sync truncate
	name string // base name
	data string // write: bytes; rename: new name
}

func (o fileOp) String() string {
	switch o.kind {
	case "write":
		return fmt.Sprintf("write(%s,%d bytes)", o.name, len(o.data))
	case "rename":
		return fmt.Sprintf("rename(%s->%s)", o.name, o.data)
	}
	return o.kind + "(" + o.name + ")"
}

var (
	reOpen   = regexp.MustCompile(`^(\d+)\s+open(?:at)?\((?:AT_FDCWD, )?"([^"]+)", ([A-Z_|0-9]+)(?:, \d+)?\) = (\d+)`)
	reWrite  = regexp.MustCompile(`^(\d+)\s+write\((\d+), "((?:[^"\\]|\\.)*)"(\.\.\.)?, (\d+)\) = (\d+)`)
	reClose  = regexp.MustCompile(`^(\d+)\s+close\((\d+)\)`)
	reRename = regexp.MustCompile(`^(\d+)\s+rename(?:at2?)?\((?:AT_FDCWD, )?"([^"]+)", (?:AT_FDCWD, )?"([^"]+)"`)
	reUnlink = regexp.MustCompile(`^(\d+)\s+unlink(?:at)?\((?:AT_FDCWD, )?"([^"]+)"`)
	reSync   = regexp.MustCompile(`^(\d+)\s+f(?:data)?sync\((\d+)\)`)
)

func parseTokenTrace(path, dataDir string) []fileOp {
	f, err := os.Open(path)
	if err != nil {
		return nil
	}
	defer f.Close()
	isTok := func(p string) (string, bool) {
		if filepath.Dir(p) == dataDir && strings.HasPrefix(filepath.Base(p), "token") {
			return filepath.Base(p), true
		}
		return "", false
	}
	fds := map[string]string{}
	var ops []fileOp
	sc := bufio.NewScanner(f)
	sc.Buffer(make([]byte, 1<<20), 1<<20)
	for sc.Scan() {
		l := sc.Text()
		if m := reOpen.FindStringSubmatch(l); m != nil {
			if n, ok := isTok(m[2]); ok && (strings.Contains(m[3], "O_WRONLY") || strings.Contains(m[3], "O_RDWR")) {
				fds[m[4]] = n
				if strings.Contains(m[3], "O_CREAT") || strings.Contains(m[3], "O_TRUNC") {
					ops = append(ops, fileOp{kind: "create", name: n})
				}
			}
		} else if m := reWrite.FindStringSubmatch(l); m != nil {
			if n, ok := fds[m[2]]; ok {
				s, err := strconv.Unquote(`"` + m[3] + `"`)
				if err != nil {
					s = m[3]
				}
				ops = append(ops, fileOp{kind: "write", name: n, data: s})
			}
		} else if m := reClose.FindStringSubmatch(l); m != nil {
			delete(fds, m[2])
		} else if m := reRename.FindStringSubmatch(l); m != nil {
			n1, ok1 := isTok(m[2])
			n2, ok2 := isTok(m[3])
			if ok1 || ok2 {
				if !ok1 {
					n1 = m[2]
				}
				if !ok2 {
					n2 = m[3]
				}
				ops = append(ops, fileOp{kind: "rename", name: n1, data: n2})
			}
		} else if m := reUnlink.FindStringSubmatch(l); m != nil {
			if n, ok := isTok(m[2]); ok {
				ops = append(ops, fileOp{kind: "unlink", name: n})
			}
		} else if m := reSync.FindStringSubmatch(l); m != nil {
			if n, ok := fds[m[2]]; ok {
				ops = append(ops, fileOp{kind: "sync", name: n})
			}
		}
	}
	return ops
}

type crashState struct {
	desc  string
	files map[string]string
}

// tokenCrashStates: every prefix of the operation log, every write cut at every byte.
func tokenCrashStates(ops []fileOp) []crashState {
	var out []crashState
	seen := map[string]bool{}
	add := func(desc string, files map[string]string) {
		cp := map[string]string{}
		var ks []string
		for k, v := range files {
			cp[k] = v
			ks = append(ks, k+"="+v)
		}
		sort.Strings(ks)
		key := strings.Join(ks, ";")
		if !seen[key] {
			seen[key] = true
			out = append(out, crashState{desc, cp})
		}
	}
	files := map[string]string{}
	add("before anything was written", files)
	for i, o := range ops {
		switch o.kind {
		case "create":
			files[o.name] = ""
			add(fmt.Sprintf("after operation %d %s", i, o), files)
		case "write":
			base := files[o.name]
			for k := 1; k <= len(o.data); k++ {
				files[o.name] = base + o.data[:k]
				add(fmt.Sprintf("inside operation %d %s after %d bytes", i, o, k), files)
			}
		case "rename":
			if v, ok := files[o.name]; ok {
				delete(files, o.name)
				files[o.data] = v
			}
			add(fmt.Sprintf("after operation %d %s", i, o), files)
		case "unlink":
			delete(files, o.name)
			add(fmt.Sprintf("after operation %d %s", i, o), files)
		}
	}
	return out
}

// ---------------------------------------------------------------- the real command line

// runC18CLI (child): the real command-line path of cmd/honeytrap — its own assembly of the server
// options from --config and --data — started from the working directory VF_CWD with an empty
// configuration: without a listener the server prints its banner and returns by itself.
func runC18CLI(c *core.Ctx) {
	cwd, data := os.Getenv("VF_CWD"), os.Getenv("VF_DATADIR")
	os.MkdirAll(cwd, 0755)
	if err := os.Chdir(cwd); err != nil {
		fmt.Println("C18CLI-ERROR chdir:", err)
		return
	}
	cfg := filepath.Join(cwd, "empty.toml")
	os.WriteFile(cfg, []byte("\n"), 0644)
	err := htcmd.New().Run([]string{"honeytrap", "--config", cfg, "--data", data})
	os.Remove(cfg)
	fmt.Println("C18CLI-DONE", err)
}

var bannerRe = regexp.MustCompile(`Honeytrap starting \(([^)]*)\)`)

// startCLI runs one start through the command line and returns the token of the banner and what was printed.
func startCLI(c *core.Ctx, dataDir, cwd string) (token string, out string, err error) {
	cmd := exec.Command(os.Args[0], "-test.run", "^TestWorker$", "-test.timeout", "0")
	cmd.Env = append(os.Environ(), "VF_PROP=C18/cli", "VF_DATADIR="+dataDir, "VF_CWD="+cwd, "VF_OUT=/dev/null", "VF_SHARD=0", "VF_NSHARDS=1", "VF_ONLY=-1", "VF_START=0", "VF_KEEP_STDOUT=1")
	var buf bytes.Buffer
	cmd.Stdout, cmd.Stderr = &buf, &buf
	if err := cmd.Start(); err != nil {
		return "", "", err
	}
	done := make(chan error, 1)
	go func() { done <- cmd.Wait() }()
	select {
	case <-done:
	case <-time.After(180 * time.Second):
		cmd.Process.Kill()
		return "", buf.String(), fmt.Errorf("start through the command line did not finish within 180 s")
	}
	c.Count("transitions", 1)
	out = buf.String()
	if !strings.Contains(out, "C18CLI-DONE") {
		return "", out, fmt.Errorf("the command line did not return: %s", trunc(out, 300))
	}
	if m := bannerRe.FindStringSubmatch(out); m != nil {
		token = m[1]
	}
	return token, out, nil
}

// c18CLI: restart histories through the real command line, from the same and from different working
// directories, on fresh data directories and on the crash states of the token write path.
func c18CLI(c *core.Ctx, base string) {
	type pre struct {
		name  string
		files map[string]string // relative to the data directory
	}
	pres := []pre{
		{"fresh data directory", nil},
		{"token present", map[string]string{"token": "c0123456789abcdefghi"}},
		{"empty temporary token file left behind", map[string]string{"token.tmp": ""}},
		{"truncated temporary token file left behind", map[string]string{"token.tmp": "c012345"}},
		{"token present and a temporary file left behind", map[string]string{"token": "c0123456789abcdefghi", "token.tmp": "zz"}},
	}
	cwdSeqs := [][]string{{"a", "a"}, {"a", "b"}, {"a", "b", "a"}, {"b", "a", "a"}}
	for pi, p := range pres {
		for si, seq := range cwdSeqs {
			pi, p, si, seq := pi, p, si, seq
			c.Case(fmt.Sprintf("cli/%s/cwd=%v", p.name, seq), func() {
				root := filepath.Join(base, fmt.Sprintf("cli-%d-%d", pi, si))
				os.RemoveAll(root)
				data := filepath.Join(root, "data")
				os.MkdirAll(data, 0755)
				for f, content := range p.files {
					os.WriteFile(filepath.Join(data, f), []byte(content), 0600)
				}
				desc := fmt.Sprintf("command-line starts on one data directory (%s) from working directories %v", p.name, seq)
				var tokens []string
				for i, w := range seq {
					cwd := filepath.Join(root, "cwd-"+w)
					tok, out, err := startCLI(c, data, cwd)
					if err != nil {
						c.Violationf("C18:cli:start-failed", "%s: start #%d: %v", desc, i+1, err)
						return
					}
					if !tokenOK.MatchString(tok) {
						c.Violationf("C18:cli:token-malformed", "%s: start #%d announced the token %q (output: %s)", desc, i+1, tok, trunc(out, 200))
					}
					b, _ := os.ReadFile(filepath.Join(data, "token"))
					if string(b) != tok {
						c.Violationf("C18:cli:token-not-in-datadir", "%s: start #%d announced %q, the data directory's token file holds %q", desc, i+1, tok, string(b))
					}
					if left, _ := filepath.Glob(filepath.Join(cwd, "token*")); len(left) > 0 {
						c.Violationf("C18:cli:token-in-cwd", "%s: start #%d left %v in its working directory", desc, i+1, left)
					}
					tokens = append(tokens, tok)
				}
				for i := 1; i < len(tokens); i++ {
					if tokens[i] != tokens[0] {
						c.Violationf("C18:cli:token-changed", "%s: tokens of the starts: %v", desc, tokens)
						break
					}
				}
				if want, ok := p.files["token"]; ok && tokens[0] != want {
					c.Violationf("C18:cli:token-replaced", "%s: the data directory held the token %q, the first start announced %q", desc, want, tokens[0])
				}
				c.Count("executions", 1)
				c.Outcome("cli", p.name, fmt.Sprint(seq), fmt.Sprint(len(tokens)))
				os.RemoveAll(root)
			})
		}
	}
}

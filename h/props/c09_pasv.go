package props

import (
	"crypto/tls"
	"fmt"
	"io"
	"net"
	"regexp"
	"strconv"
	"strings"
	"time"

	"verif/h/core"
	"verif/h/lab"
	"verif/h/memconn"
)

// C09/pasv — FTP passive-mode data listeners are kernel sockets, so this part
// runs on the real clock outside a bubble. The control connection is still an
// in-memory connection. No oracle uses a short timeout: "the server closed the
// control connection" is awaited (cap 30 s); "listener still open", "goroutine
// still parked" and "descriptor still open" must persist over 3 s of polling
// with forced GCs before they count.

func init() {
	register("C09/pasv", driver{run: func(c *core.Ctx) { runPasv(c, "C09") }, needsStorage: true, noBubble: true})
	// the same sessions for C01: the goroutines of the passive sockets run outside the server's
	// per-connection recover, so a panic there ends the process; oracle = the worker survives and a
	// fresh control connection is greeted after every scenario
	register("C01/pasv", driver{run: func(c *core.Ctx) { runPasv(c, "C01") }, needsStorage: true, noBubble: true})
}

func waitUntil(cap time.Duration, f func() bool) bool {
	deadline := time.Now().Add(cap)
	for {
		if f() {
			return true
		}
		if time.Now().After(deadline) {
			return false
		}
		time.Sleep(10 * time.Millisecond)
		core.Tick()
	}
}

var pasvRe = regexp.MustCompile(`\((\d+),(\d+),(\d+),(\d+),(\d+),(\d+)\)`)
var epsvRe = regexp.MustCompile(`\(\|\|\|(\d+)\|\)`)

type ftpCtl struct {
	conn *memconn.Conn
}

func (f *ftpCtl) cmd(line string, wantPrefix string) string {
	f.conn.Take()
	f.conn.Send([]byte(line + "\r\n"))
	var got string
	waitUntil(20*time.Second, func() bool {
		got += string(f.conn.Take())
		return strings.Contains(got, wantPrefix) || f.conn.Closed()
	})
	return got
}

func portOpen(port int) bool {
	c, err := net.DialTimeout("tcp", fmt.Sprintf("127.0.0.1:%d", port), 2*time.Second)
	if err != nil {
		return false
	}
	c.Close()
	return true
}

func runPasv(c *core.Ctx, prop string) {
	type scenario struct {
		name string
		cmds []string // commands after login; PASV/EPSV ports are collected
		dial bool     // connect to the last passive port and read a LIST
		end  string   // QUIT | close
		idle bool     // connect to the last passive port and send no transfer command
	}
	scs := []scenario{
		{"PASV never connected, QUIT", []string{"PASV"}, false, "QUIT", false},
		{"PASV never connected, client close", []string{"PASV"}, false, "close", false},
		{"EPSV never connected, QUIT", []string{"EPSV"}, false, "QUIT", false},
		{"PASV x3 never connected, QUIT", []string{"PASV", "PASV", "EPSV"}, false, "QUIT", false},
		{"PASV, LIST over the data connection, QUIT", []string{"PASV"}, true, "QUIT", false},
		{"PASV, LIST over the data connection, client close", []string{"PASV"}, true, "close", false},
		{"PASV, data connection opened but never used, QUIT", []string{"PASV"}, false, "QUIT", true},
		{"PASV, data connection opened but never used, client close", []string{"PASV"}, false, "close", true},
		{"PASV, data connection opened, PASV again, QUIT", []string{"PASV", "connect", "PASV"}, false, "QUIT", false},
	}
	if c.Thorough() {
		// the data command gives up when the passive listener's 30 s (real) deadline passes
		scs = append(scs, scenario{"PASV then LIST never connected, close", []string{"PASV", "LIST"}, false, "close", false})
	}
	for si, sc := range scs {
		sc := sc
		for _, n := range []int{1, 5, 20} {
			n := n
			if n > 1 && si > 3 && !sc.idle {
				continue
			}
			if prop == "C01" && n == 20 {
				continue
			}
			c.Case(fmt.Sprintf("pasv/%s/x%d", sc.name, n), func() {
				s := startSvcReal("ftp")
				defer s.Stop()
				time.Sleep(50 * time.Millisecond)
				base := honeytrapGoroutines()
				fd0 := fdCount()
				var ports []int
				var idleConns []net.Conn
				defer func() {
					for _, ic := range idleConns {
						ic.Close()
					}
				}()
				for i := 0; i < n; i++ {
					ctl := &ftpCtl{conn: dial(s, "ftp", i%5)}
					waitUntil(20*time.Second, func() bool { return len(ctl.conn.Output()) > 0 })
					ctl.cmd("USER anonymous", "331")
					ctl.cmd("PASS anonymous", "230")
					last := 0
					for _, cm := range sc.cmds {
						if cm == "connect" {
							if raw, err := net.DialTimeout("tcp", fmt.Sprintf("127.0.0.1:%d", last), 5*time.Second); err == nil {
								idleConns = append(idleConns, raw)
							}
							time.Sleep(20 * time.Millisecond)
							continue
						}
						if cm == "LIST" {
							ctl.conn.Send([]byte("LIST\r\n"))
							time.Sleep(20 * time.Millisecond)
							continue
						}
						r := ctl.cmd(cm, "2")
						if m := pasvRe.FindStringSubmatch(r); m != nil {
							p1, _ := strconv.Atoi(m[5])
							p2, _ := strconv.Atoi(m[6])
							last = p1*256 + p2
							ports = append(ports, last)
						} else if m := epsvRe.FindStringSubmatch(r); m != nil {
							last, _ = strconv.Atoi(m[1])
							ports = append(ports, last)
						}
					}
					c.Count("transitions", int64(len(sc.cmds)+3))
					if sc.dial && last != 0 {
						raw, err := net.DialTimeout("tcp", fmt.Sprintf("127.0.0.1:%d", last), 5*time.Second)
						if err == nil {
							dc := tls.Client(raw, &tls.Config{InsecureSkipVerify: true})
							ctl.conn.Send([]byte("LIST\r\n"))
							dc.SetDeadline(time.Now().Add(20 * time.Second))
							io.Copy(io.Discard, dc)
							dc.Close()
						}
					}
					if sc.idle && last != 0 {
						// the data connection is accepted (the passive socket accepts one connection and
						// closes its listener: a refused second dial proves ours was taken) and then left alone
						if raw, err := net.DialTimeout("tcp", fmt.Sprintf("127.0.0.1:%d", last), 5*time.Second); err == nil {
							idleConns = append(idleConns, raw)
							waitUntil(10*time.Second, func() bool { return !portOpen(last) })
						}
					}
					if sc.end == "QUIT" {
						ctl.cmd("QUIT", "221")
					} else {
						ctl.conn.CloseWrite()
					}
					if !waitUntil(75*time.Second, ctl.conn.Closed) && prop == "C09" {
						c.Violationf("C09:ftp:handler-not-finished:pasv", "ftp: %s: control connection not closed by the server 75 s after %s", sc.name, sc.end)
					}
				}
				// our ends of the unused data connections go away too; what the server holds must follow
				for _, ic := range idleConns {
					ic.Close()
				}
				idleConns = nil
				c.Count("executions", 1)
				if prop == "C01" {
					// the accept goroutines give up at their 30 s deadline at the latest: wait for the ones of
					// unconnected sockets in the thorough tier, then the process must still greet a client
					if c.Thorough() && !sc.dial && !sc.idle {
						time.Sleep(31 * time.Second)
					}
					probe := dial(s, "ftp", 7)
					if !waitUntil(30*time.Second, func() bool { return len(probe.Output()) > 0 }) {
						c.Violationf("C01:pasv:not-serving", "ftp: %s (x%d): a fresh control connection was not greeted within 30 s after the scenario", sc.name, n)
					}
					probe.CloseWrite()
					c.Outcome("pasv", sc.name, fmt.Sprint(n))
					return
				}
				if len(ports) == 0 {
					// e.g. EPSV on an IPv4 control connection is refused with 425: nothing to release
					c.Class("no passive port announced: " + sc.name)
					return
				}
				// the handler is gone: every passive listener must be closed, goroutines and descriptors back to baseline
				var open []int
				ok := waitUntil(3*time.Second, func() bool {
					open = open[:0]
					for _, p := range ports {
						if portOpen(p) {
							open = append(open, p)
						}
					}
					return len(open) == 0
				})
				if !ok {
					c.Violationf("C09:ftp:passive-listener-open", "ftp: %s (x%d): after the session ended %d of %d passive listening sockets still accept connections (ports %v)", sc.name, n, len(open), len(ports), open)
				}
				var d []string
				ok = waitUntil(3*time.Second, func() bool {
					d = diffGoroutines(base, honeytrapGoroutines())
					return len(d) == 0
				})
				if !ok {
					c.Violationf("C09:ftp:goroutine-leak:"+leakSig(d), "ftp: %s (x%d): goroutines remain after the session ended: %s", sc.name, n, strings.Join(d, "; "))
				}
				fd1 := 0
				ok = waitUntil(3*time.Second, func() bool { fd1 = fdCount(); return fd1 <= fd0 })
				if !ok {
					c.Violationf("C09:ftp:fd-leak", "ftp: %s (x%d): %d descriptors open before, %d after the sessions ended", sc.name, n, fd0, fd1)
				}
				c.Outcome("pasv", sc.name, fmt.Sprint(n), fmt.Sprint(len(open)), fmt.Sprint(len(d)))
				if c.WantSample() {
					c.Sample(map[string]interface{}{"part": "pasv", "scenario": sc.name, "sessions": n, "passive_ports": len(ports)})
				}
			})
		}
	}
}

// startSvcReal is startSvc for drivers that run outside a bubble.
func startSvcReal(names ...string) *lab.Server {
	lab.ResetEvents()
	lab.ResetStubs()
	s, err := lab.Start(svcToml(names...))
	if err != nil {
		panic(err)
	}
	var aerr error
	waitUntil(10*time.Second, func() bool { aerr = s.Attach(); return aerr == nil })
	if aerr != nil {
		panic(aerr)
	}
	return s
}

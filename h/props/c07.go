package props

import (
	"bytes"
	"encoding/json"
	"fmt"
	"math"
	"os"
	"path/filepath"
	"sort"
	"strings"
	"time"

	"github.com/honeytrap/honeytrap/event"
	"github.com/honeytrap/honeytrap/pushers"
	file "github.com/honeytrap/honeytrap/pushers/file"

	"verif/h/core"
	"verif/h/lab"
)

// C07 — the file channel keeps every event as one intact JSON line across
// rotations.
//
// (a) the rotating writer (exported constructor OpenRotateFile) driven
//     directly: all write histories up to the depth bound whose batches are
//     1-3 lines with lengths from a boundary set recomputed from the space
//     left in the active file, x "advance the fake clock by 1 s before this
//     write" (so that two rotations share a second or do not) x "the log file
//     was removed / renamed away between two writes" (at most once);
// (b) the whole FileBackend (New, Send, 1 s flush timer, 500 KiB threshold) in
//     the bubble, incl. unwritable destinations (Send must not block forever).

func init() { register("C07", driver{run: runC07}) }

type c07Line struct {
	id  int
	len int // including the newline
}

func mkLine(id, n int) []byte {
	// valid JSON of exactly n bytes including the trailing newline (n >= 12)
	head := fmt.Sprintf(`{"n":%d,"p":"`, id)
	tail := "\"}\n"
	pad := n - len(head) - len(tail)
	if pad < 0 {
		pad = 0
	}
	return []byte(head + strings.Repeat("x", pad) + tail)
}

type c07Write struct {
	lines   []int  // requested line lengths (symbolic ones resolved at run time): >0 literal, <=0 relative to rem: 0=rem, -1=rem-1, -2=rem+1
	advance bool   // advance the fake clock by one second before this write
	fault   string // "", "remove", "rename": done to the active log file before this write; "reopen": Close + OpenRotateFile
}

func (w c07Write) String() string {
	s := fmt.Sprint(w.lines)
	if w.advance {
		s = "+1s " + s
	}
	if w.fault != "" {
		s = w.fault + " " + s
	}
	return s
}

// readAll returns every line found in <path> and <path>.* (sorted file names), and per-file sizes.
func c07ReadAll(path string) (lines []string, torn []string, sizes map[string]int64, nlines map[string]int) {
	sizes = map[string]int64{}
	nlines = map[string]int{}
	files, _ := filepath.Glob(path + "*")
	sort.Strings(files)
	for _, f := range files {
		b, err := os.ReadFile(f)
		if err != nil {
			continue
		}
		sizes[f] = int64(len(b))
		for _, l := range strings.Split(string(b), "\n") {
			if l == "" {
				continue
			}
			nlines[f]++
			var v map[string]interface{}
			if json.Unmarshal([]byte(l), &v) != nil {
				torn = append(torn, fmt.Sprintf("%s: %q", filepath.Base(f), trunc(l, 60)))
				continue
			}
			lines = append(lines, l)
		}
	}
	return
}

func c07RunWrites(c *core.Ctx, dir string, maxSize int64, hist []c07Write) {
	core.Tick()
	os.RemoveAll(dir)
	os.MkdirAll(dir, 0755)
	path := filepath.Join(dir, "events.log")
	rf, err := file.OpenRotateFile(path, 0600, maxSize)
	if err != nil {
		c.Violationf("C07:rotate:open", "OpenRotateFile: %v", err)
		return
	}
	defer func() { rf.Close() }()
	id := 0
	var written []string
	rotatedSeen := map[string]string{} // rotated file -> content when first seen
	pos := int64(0)                    // model of the active file's size (for resolving rem)
	faulted := false
	desc := func() string { return fmt.Sprintf("maxsize=%d writes=%v", maxSize, hist) }
	for wi, w := range hist {
		if w.advance {
			lab.Advance(time.Second)
		}
		switch w.fault {
		case "remove":
			os.Remove(path)
			pos = 0
			faulted = true
		case "rename":
			os.Rename(path, filepath.Join(dir, "moved-away"))
			pos = 0
			faulted = true
		case "reopen":
			// the channel is closed and opened again on the same path (a restart) within the same
			// second unless the write also advances the clock
			rf.Close()
			rf, err = file.OpenRotateFile(path, 0600, maxSize)
			if err != nil {
				c.Violationf("C07:rotate:open", "%s: reopening: %v", desc(), err)
				return
			}
			if pos >= maxSize {
				pos = 0 // a full file is rotated when it is opened
			}
		}
		var batch []byte
		for _, ll := range w.lines {
			rem := int(maxSize - pos)
			n := ll
			switch ll {
			case 0:
				n = rem
			case -1:
				n = rem - 1
			case -2:
				n = rem + 1
			}
			if n < 12 {
				n = 12
			}
			id++
			l := mkLine(id, n)
			batch = append(batch, l...)
			written = append(written, strings.TrimSuffix(string(l), "\n"))
			// model of where the active file stands after this line (a line that does not fit starts a new file)
			if pos+int64(len(l)) > maxSize {
				pos = 0
			}
			pos += int64(len(l))
		}
		var werr error
		var n int
		func() {
			defer func() {
				if r := recover(); r != nil {
					werr = fmt.Errorf("panic: %v", r)
				}
			}()
			n, werr = rf.Write(batch)
		}()
		c.Count("transitions", 1)
		if werr != nil && strings.HasPrefix(werr.Error(), "panic") {
			c.Violationf("C07:rotate:panic", "%s: write #%d: %v", desc(), wi, werr)
			return
		}
		_ = n
		rf.Sync()
		// rotated predecessors must never change or disappear
		files, _ := filepath.Glob(path + ".*")
		for _, f := range files {
			b, _ := os.ReadFile(f)
			if old, ok := rotatedSeen[f]; ok && old != string(b) {
				c.Violationf("C07:rotate:rotated-file-overwritten", "%s: after write #%d the rotated file %s changed (it held %d bytes, now %d): an earlier rotated file was overwritten", desc(), wi, filepath.Base(f), len(old), len(b))
			}
			rotatedSeen[f] = string(b)
		}
		for f := range rotatedSeen {
			if _, err := os.Stat(f); err != nil {
				c.Violationf("C07:rotate:rotated-file-lost", "%s: after write #%d the rotated file %s is gone", desc(), wi, filepath.Base(f))
				delete(rotatedSeen, f)
			}
		}
	}
	c.Count("executions", 1)
	lines, torn, sizes, nlines := c07ReadAll(path)
	if faulted {
		// lines written before the file was taken away live in the removed/renamed file
		if b, err := os.ReadFile(filepath.Join(dir, "moved-away")); err == nil {
			for _, l := range strings.Split(string(b), "\n") {
				if l != "" {
					lines = append(lines, l)
				}
			}
		}
	}
	if len(torn) > 0 {
		c.Violationf("C07:rotate:torn-line", "%s: lines that are not complete JSON documents: %v", desc(), torn)
	}
	got := map[string]int{}
	for _, l := range lines {
		got[l]++
	}
	var missing, dup []string
	for _, l := range written {
		switch got[l] {
		case 0:
			missing = append(missing, trunc(l, 24))
		case 1:
		default:
			dup = append(dup, trunc(l, 24))
		}
	}
	if len(missing) > 0 && !(faulted && w0Removed(hist)) {
		c.Violationf("C07:rotate:line-lost", "%s: %d of %d written lines are in no file (first: %s); files: %v", desc(), len(missing), len(written), missing[0], sizes)
	}
	if len(dup) > 0 {
		c.Violationf("C07:rotate:line-duplicated", "%s: lines present more than once: %v", desc(), dup)
	}
	for f, sz := range sizes {
		if sz > maxSize && nlines[f] > 1 {
			c.Violationf("C07:rotate:file-too-large", "%s: %s holds %d bytes in %d lines (max size %d)", desc(), filepath.Base(f), sz, nlines[f], maxSize)
		}
	}
	c.Outcome(fmt.Sprint(len(sizes)), fmt.Sprint(len(missing)), fmt.Sprint(len(torn)))
}

// w0Removed: with "remove" the lines written before the removal are legitimately gone.
func w0Removed(h []c07Write) bool {
	for _, w := range h {
		if w.fault == "remove" {
			return true
		}
	}
	return false
}

func runC07(c *core.Ctx) {
	base := filepath.Join(lab.ScratchDir(), "c07")
	// batch alphabet: 1..3 lines with lengths from the boundary set
	lens := []int{12, 100, -1, 0, -2, 1023, 1024, 1025, 2049}
	var batches [][]int
	for _, a := range lens {
		batches = append(batches, []int{a})
	}
	for _, a := range []int{12, 100, -1, 0, -2, 1025} {
		for _, b := range []int{12, -1, 0, -2, 1024} {
			batches = append(batches, []int{a, b})
		}
	}
	for _, t := range [][]int{{100, 100, 0}, {100, -1, 12}, {12, 0, 12}, {-2, 12, 12}, {100, 100, -2}, {2049, 12, 0}} {
		batches = append(batches, t)
	}
	depth := 3
	// (a) max size 1024: all histories, first two writes from the full batch alphabet, later ones from single lines + selected pairs
	small := batches[:len(lens)+8]
	for bi, b0 := range batches {
		for _, adv0 := range []bool{false, true} {
			keyFirst := len(b0) == 1 && b0[0] <= 0 && !adv0
			nsplit := 1
			if keyFirst {
				nsplit = len(batches) // one case per second write
			}
			for only2 := 0; only2 < nsplit; only2++ {
				bi, b0, adv0, only2 := bi, b0, adv0, only2
				c.Case(fmt.Sprintf("rotate/1024/first=%v/adv=%v/part%d", b0, adv0, only2), func() {
					dir := filepath.Join(base, fmt.Sprintf("a-%d-%v-%d", bi, adv0, only2))
					var rec func(h []c07Write, faultUsed bool)
					rec = func(h []c07Write, faultUsed bool) {
						if !(len(h) == 1 && keyFirst && only2 > 0) {
							c07RunWrites(c, dir, 1024, h)
						}
						if len(h) == depth {
							return
						}
						alpha := batches
						if len(h) >= 2 {
							alpha = small
						}
						for ai, b := range alpha {
							if len(h) == 1 && keyFirst && ai != only2 {
								continue
							}
							for _, adv := range []bool{false, true} {
								if adv && len(h) >= 3 {
									continue // clock deviations only among the first three writes
								}
								rec(append(append([]c07Write(nil), h...), c07Write{lines: b, advance: adv}), faultUsed)
							}
							if !faultUsed && len(h) <= 2 && len(b) == 1 {
								for _, f := range []string{"remove", "rename", "reopen"} {
									rec(append(append([]c07Write(nil), h...), c07Write{lines: b, fault: f}), true)
								}
							}
						}
					}
					// depth: the three boundary first writes (rem-1, rem, rem+1 without clock advance) go one level deeper
					key := len(b0) == 1 && b0[0] <= 0 && !adv0
					defer func(d int) { depth = d }(depth)
					if c.Thorough() {
						depth = 4
						if key {
							depth = 5
						}
					} else {
						depth = 3
						if key {
							depth = 4
						}
					}
					rec([]c07Write{{lines: b0, advance: adv0}}, false)
					os.RemoveAll(dir)
					if c.WantSample() && bi == 3 {
						c.Sample(map[string]interface{}{"part": "rotate", "maxsize": 1024, "first_write_lines": "rem (exactly the space left)", "depth": depth, "batch_alphabet": len(batches)})
					}
				})
			}
		}
	}
	// larger max sizes with the scaled boundary set at depth <= 3
	for _, ms := range []int64{4096, 1 << 20} {
		ms := ms
		sl := [][]int{{12}, {-1}, {0}, {-2}, {int(ms) - 1}, {int(ms)}, {int(ms) + 1}, {2*int(ms) + 1}, {100, 0}, {100, -2}, {-2, 12}, {int(ms) / 2, int(ms) / 2}, {int(ms)/2 + 1, int(ms) / 2}}
		for ai, a := range sl {
			ai, a := ai, a
			c.Case(fmt.Sprintf("rotate/%d/first%d", ms, ai), func() {
				dir := filepath.Join(base, fmt.Sprintf("big-%d-%d", ms, ai))
				{
					for _, b := range sl {
						for _, d := range sl {
							if ms > 4096 && len(a)+len(b)+len(d) > 4 {
								continue
							}
							for _, adv := range []bool{false, true} {
								c07RunWrites(c, dir, ms, []c07Write{{lines: a}, {lines: b, advance: adv}, {lines: d}})
							}
						}
					}
				}
				os.RemoveAll(dir)
			})
		}
	}
	c07Backend(c, base)
}

// ---------------------------------------------------------------- (b) FileBackend

type tomlDecoderStub struct{}

func c07NewBackend(path string, maxSize int64) (pushers.Channel, error) {
	return file.New(func(ch pushers.Channel) error {
		fb := ch.(*file.FileBackend)
		fb.File = path
		fb.MaxSize = maxSize
		return nil
	})
}

func c07Backend(c *core.Ctx, base string) {
	pads := []int{0, 1, 100, 900, 1000, 1100, 2100, -1} // -1: an event that encoding/json cannot marshal (NaN)
	sendAll := func(ch pushers.Channel, seq []int, stuck *bool) {
		done := make(chan struct{})
		go func() {
			for i, p := range seq {
				if p < 0 {
					ch.Send(event.New(event.Category("c07"), event.Custom("seq", i), event.Custom("nan", math.NaN())))
					continue
				}
				ch.Send(event.New(event.Category("c07"), event.Custom("seq", i), event.Custom("pad", strings.Repeat("p", p)), event.Custom("bin", "\x00\xff\n\"")))
			}
			close(done)
		}()
		lab.Quiesce()
		select {
		case <-done:
		default:
			// give a blocked Send one fake hour
			lab.Advance(time.Hour)
			select {
			case <-done:
			default:
				*stuck = true
			}
		}
	}
	check := func(name, path string, maxSize int64, seq []int) {
		lines, torn, sizes, nlines := c07ReadAll(path)
		if len(torn) > 0 {
			c.Violationf("C07:backend:torn-line", "%s: lines that are not complete JSON documents: %v", name, torn)
		}
		seen := map[int]int{}
		for _, l := range lines {
			var v map[string]interface{}
			json.Unmarshal([]byte(l), &v)
			if v["category"] != "c07" {
				continue
			}
			s, _ := v["seq"].(float64)
			seen[int(s)]++
			if pad, _ := v["pad"].(string); len(pad) != seq[int(s)] {
				c.Violationf("C07:backend:field-changed", "%s: event %d has a pad of %d bytes, sent %d", name, int(s), len(pad), seq[int(s)])
			}
		}
		for i := range seq {
			if seq[i] < 0 {
				continue // cannot be written as JSON; the events around it must not suffer
			}
			if seen[i] != 1 {
				c.Violationf("C07:backend:event-count", "%s: event #%d appears %d times in %v (files %v)", name, i, seen[i], filepath.Base(path)+"*", sizes)
				break
			}
		}
		for f, sz := range sizes {
			if sz > maxSize && nlines[f] > 1 {
				c.Violationf("C07:backend:file-too-large", "%s: %s holds %d bytes in %d lines (max size %d)", name, filepath.Base(f), sz, nlines[f], maxSize)
			}
		}
	}
	for fi, p0 := range pads {
		fi, p0 := fi, p0
		c.Case(fmt.Sprintf("backend/first-pad=%d", p0), func() {
			depth := 4
			if c.Thorough() {
				depth = 5
			}
			var rec func(seq []int)
			rec = func(seq []int) {
				if len(seq) >= 2 {
					dir := filepath.Join(base, fmt.Sprintf("b-%d", fi))
					os.RemoveAll(dir)
					os.MkdirAll(dir, 0755)
					path := filepath.Join(dir, "ev.log")
					ch, err := c07NewBackend(path, 1024)
					if err != nil {
						c.Violationf("C07:backend:new", "file.New: %v", err)
						return
					}
					stuck := false
					sendAll(ch, seq, &stuck)
					c.Count("executions", 1)
					c.Count("transitions", int64(len(seq)))
					name := fmt.Sprintf("FileBackend maxsize=1024 pads=%v", seq)
					if stuck {
						c.Violationf("C07:backend:send-blocked", "%s: Send still blocked after one (fake) hour", name)
					} else {
						lab.Advance(2*time.Second + 100*time.Millisecond) // the flush interval
						check(name, path, 1024, seq)
					}
					ch.(*file.FileBackend).Close()
					lab.Quiesce()
					c.Outcome("backend", fmt.Sprint(seq))
					// the same events, closed right after the last Send returned (no flush tick in between):
					// once Close has returned, every accepted event is in the files
					if len(seq) <= 3 {
						os.RemoveAll(dir)
						os.MkdirAll(dir, 0755)
						if ch2, err := c07NewBackend(path, 1024); err == nil {
							stuck2 := false
							sendAll(ch2, seq, &stuck2)
							closed := make(chan struct{})
							go func() { ch2.(*file.FileBackend).Close(); close(closed) }()
							lab.Quiesce()
							c.Count("executions", 1)
							select {
							case <-closed:
								if !stuck2 {
									check(name+" then Close without waiting for the flush", path, 1024, seq)
								}
							default:
								c.Violationf("C07:backend:close-blocked", "%s: Close has not returned although everything is quiescent", name)
							}
						}
					}
				}
				if len(seq) == depth {
					return
				}
				for _, p := range pads {
					rec(append(append([]int(nil), seq...), p))
				}
			}
			rec([]int{p0})
		})
	}
	// flush by the 500 KiB threshold (bursts) with a larger max size
	c.Case("backend/threshold", func() {
		dir := filepath.Join(base, "thr")
		os.RemoveAll(dir)
		os.MkdirAll(dir, 0755)
		path := filepath.Join(dir, "ev.log")
		ch, _ := c07NewBackend(path, 300*1024)
		var seq []int
		for i := 0; i < 1500; i++ {
			seq = append(seq, 700+i%13)
		}
		stuck := false
		sendAll(ch, seq, &stuck)
		lab.Advance(3 * time.Second)
		c.Count("executions", 1)
		if stuck {
			c.Violationf("C07:backend:send-blocked", "burst of 1500 events: Send blocked")
		} else {
			check("FileBackend maxsize=300KiB burst of 1500 events (500 KiB batches)", path, 300*1024, seq)
		}
		ch.(*file.FileBackend).Close()
	})
	// bursts above the 500 KiB batch threshold into a small maximum size: whatever the writer hands to the
	// rotating file at a batch boundary, no line may be cut; line lengths are swept so that the
	// boundaries fall at every offset inside a line and at different fill levels of the active file
	for _, p0 := range []int{100, 104, 108, 112, 116, 120, 124, 128, 131, 137, 143, 149} {
		p0 := p0
		c.Case(fmt.Sprintf("backend/threshold-small/pad=%d", p0), func() {
			dir := filepath.Join(base, fmt.Sprintf("thrs-%d", p0))
			os.RemoveAll(dir)
			os.MkdirAll(dir, 0755)
			path := filepath.Join(dir, "ev.log")
			ch, _ := c07NewBackend(path, 1024)
			var seq []int
			for i := 0; i < 3000; i++ {
				seq = append(seq, p0)
			}
			stuck := false
			sendAll(ch, seq, &stuck)
			lab.Advance(3 * time.Second)
			c.Count("executions", 1)
			if stuck {
				c.Violationf("C07:backend:send-blocked", "burst of 3000 events: Send blocked")
			} else {
				check(fmt.Sprintf("FileBackend maxsize=1024 burst of 3000 events with pads of %d bytes (500 KiB batches)", p0), path, 1024, seq)
			}
			ch.(*file.FileBackend).Close()
			lab.Quiesce()
			os.RemoveAll(dir)
		})
	}
	// unwritable destinations: sending must not block forever
	for _, kind := range []string{"missing-directory", "read-only-directory", "path-is-directory"} {
		kind := kind
		c.Case("backend/"+kind, func() {
			dir := filepath.Join(base, "ro-"+kind)
			os.RemoveAll(dir)
			path := filepath.Join(dir, "sub", "ev.log")
			switch kind {
			case "read-only-directory":
				os.MkdirAll(filepath.Join(dir, "sub"), 0555)
				if os.Geteuid() == 0 {
					// root ignores directory permissions; make the open fail another way
					os.MkdirAll(path, 0755) // path exists as a directory
				}
			case "path-is-directory":
				os.MkdirAll(path, 0755)
			}
			ch, err := c07NewBackend(path, 1024)
			c.Count("executions", 1)
			if err != nil {
				c.Class("constructor refused " + kind)
				return
			}
			stuck := false
			sendAll(ch, []int{1, 2, 3}, &stuck)
			if stuck {
				c.Violationf("C07:backend:send-blocked:"+kind, "destination %s: Send blocks forever (still parked after one fake hour) when the log file cannot be opened", kind)
			}
			c.Outcome("unwritable", kind, fmt.Sprint(stuck))
		})
	}
}

var _ = bytes.Equal

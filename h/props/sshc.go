package props

import (
	"fmt"
	"net"
	"time"

	"golang.org/x/crypto/ssh"

	"verif/h/lab"
	"verif/h/memconn"
)

// sshAttempt is what the harness's SSH client observed for one connection.
type sshAttempt struct {
	end      *memconn.End
	conn     ssh.Conn
	chans    <-chan ssh.NewChannel
	reqs     <-chan *ssh.Request
	err      error
	done     bool
	hostKey  ssh.PublicKey
	tried    []string // passwords presented, in order
	accepted int      // index of the accepted password, -1 if none
}

// sshConnect speaks the real SSH transport (x/crypto/ssh client) over an
// in-memory duplex connection to a lab server. passwords are presented in
// order through a retrying password callback until one is accepted.
func sshConnect(s *lab.Server, svc string, k int, user string, passwords []string) *sshAttempt {
	sp := svcSpecs[svc]
	ip, port := clientAddr(k)
	a := &sshAttempt{accepted: -1}
	a.end = s.DialPair(serverIP, sp.port, ip, port)
	i := 0
	cfg := &ssh.ClientConfig{
		User: user,
		HostKeyCallback: func(hostname string, remote net.Addr, key ssh.PublicKey) error {
			a.hostKey = key
			return nil
		},
		Timeout: 0,
	}
	if passwords != nil {
		cfg.Auth = []ssh.AuthMethod{ssh.RetryableAuthMethod(ssh.PasswordCallback(func() (string, error) {
			if i >= len(passwords) {
				return "", fmt.Errorf("no more passwords")
			}
			p := passwords[i]
			i++
			a.tried = append(a.tried, p)
			return p, nil
		}), len(passwords))}
	}
	go func() {
		c, chans, reqs, err := ssh.NewClientConn(a.end, "lab", cfg)
		a.conn, a.chans, a.reqs, a.err = c, chans, reqs, err
		if err == nil {
			a.accepted = len(a.tried) - 1
			go ssh.DiscardRequests(reqs)
			go func() {
				for nc := range chans {
					nc.Reject(ssh.Prohibited, "no")
				}
			}()
		}
		a.done = true
	}()
	lab.Quiesce()
	return a
}

func (a *sshAttempt) close() {
	if a.conn != nil {
		a.conn.Close()
	}
	a.end.Close()
	lab.Quiesce()
}

// sshRequest opens a session channel and sends one request with a raw payload.
// It never blocks forever: replies are awaited through quiescence plus fake time.
func sshSessionRequests(a *sshAttempt, reqs []sshReq) (errs []string) {
	if a.conn == nil {
		return []string{"not connected"}
	}
	type res struct {
		ch  ssh.Channel
		err error
	}
	rc := make(chan res, 1)
	go func() {
		ch, in, err := a.conn.OpenChannel("session", nil)
		if err == nil {
			go ssh.DiscardRequests(in)
		}
		rc <- res{ch, err}
	}()
	lab.Quiesce()
	var ch ssh.Channel
	select {
	case r := <-rc:
		if r.err != nil {
			return []string{"open: " + r.err.Error()}
		}
		ch = r.ch
	default:
		return []string{"open: no answer"}
	}
	for _, rq := range reqs {
		done := make(chan error, 1)
		go func() {
			_, err := ch.SendRequest(rq.typ, rq.wantReply, rq.payload)
			done <- err
		}()
		lab.Quiesce()
		select {
		case err := <-done:
			if err != nil {
				errs = append(errs, rq.typ+": "+err.Error())
			}
		default:
			// no reply although one was wanted: the client library now holds the
			// channel's request lock until the connection ends, so stop here
			lab.Advance(2 * time.Second)
			return append(errs, rq.typ+": no reply")
		}
		if rq.data != nil {
			go ch.Write(rq.data)
			lab.Quiesce()
		}
	}
	go ch.Close()
	lab.Quiesce()
	return errs
}

type sshReq struct {
	typ       string
	wantReply bool
	payload   []byte
	data      []byte // channel data written after the request
}

func sshString(s string) []byte {
	b := []byte{byte(len(s) >> 24), byte(len(s) >> 16), byte(len(s) >> 8), byte(len(s))}
	return append(b, s...)
}

package lab

import (
	"testing/synctest"

	"time"
	"verif/h/core"
)

// Quiesce returns when every goroutine in the bubble is durably blocked.
func Quiesce() {
	synctest.Wait()
	core.Tick()
}

// Advance moves the bubble's fake clock forward by d and waits for quiescence.
func Advance(d time.Duration) {
	time.Sleep(d)
	synctest.Wait()
	core.Tick()
}

package props

import (
	"fmt"
	"strings"

	"verif/h/core"
	"verif/h/lab"
)

// C04 — every client command is captured exactly once, however the stream is
// segmented. For every token sequence up to the depth bound the byte stream is
// delivered unsegmented, in lock-step, with every single cut point, (short
// streams) every pair of cut points, and as a 1-byte dribble; the ordered list
// of (canonical) events recorded for the connection must equal the list the
// generator attached to the tokens — in particular it is the same for all
// segmentations of one stream.

func init() { register("C04", driver{run: runC04, needsStorage: true}) }

type delivery struct {
	name string
	segs [][]byte
	lock bool // quiesce between segments
}

func deliveries(toks []token, maxCut2 int, dribbleMax int) []delivery {
	var stream []byte
	var lock [][]byte
	for _, t := range toks {
		stream = append(stream, t.bytes...)
		lock = append(lock, t.bytes)
	}
	ds := []delivery{{"whole", [][]byte{stream}, false}, {"lockstep", lock, true}}
	for p := 1; p < len(stream); p++ {
		ds = append(ds, delivery{fmt.Sprintf("cut@%d", p), [][]byte{stream[:p], stream[p:]}, true})
	}
	if len(stream) <= maxCut2 {
		for p := 1; p < len(stream); p++ {
			for q := p + 1; q < len(stream); q++ {
				ds = append(ds, delivery{fmt.Sprintf("cut@%d,%d", p, q), [][]byte{stream[:p], stream[p:q], stream[q:]}, true})
			}
		}
	}
	if len(stream) <= dribbleMax {
		var d [][]byte
		for i := range stream {
			d = append(d, stream[i:i+1])
		}
		ds = append(ds, delivery{"dribble", d, true})
		// same cuts, but all segments queued before the handler runs
		ds = append(ds, delivery{"dribble-queued", d, false})
	}
	return ds
}

// runSession runs prologue (lock-step) + one delivery against a fresh server
// and returns the canonical event list of the connection.
func c04Session(c *core.Ctx, g grammar, toks []token, d delivery) (got []string, transcript string) {
	s := startSvc(g.svc)
	defer s.Stop()
	conn := dial(s, g.svc, 0)
	lab.Quiesce()
	for _, p := range g.prologue {
		conn.Send(p.bytes)
		lab.Quiesce()
	}
	for _, sg := range d.segs {
		conn.Send(sg)
		if d.lock {
			lab.Quiesce()
		}
		c.Count("transitions", 1)
	}
	lab.Quiesce()
	conn.CloseWrite()
	settleConn(conn)
	for _, e := range eventsOf(0) {
		if s := g.canon(e); s != "" {
			got = append(got, s)
		}
	}
	return got, string(conn.Output())
}

func expectedEvents(g grammar, toks []token) []string {
	var want []string
	for _, p := range g.prologue {
		want = append(want, p.events...)
	}
	for _, t := range toks {
		want = append(want, t.events...)
	}
	return want
}

func tokNames(toks []token) string {
	var n []string
	for _, t := range toks {
		n = append(n, t.name)
	}
	return strings.Join(n, " ; ")
}

// classify names the kind of difference for the violation signature.
func diffKind(got, want []string) string {
	if len(got) < len(want) {
		// is got a subsequence of want?
		return "lost"
	}
	if len(got) > len(want) {
		return "extra"
	}
	return "fields"
}

func firstDiff(got, want []string) string {
	for i := 0; i < len(got) || i < len(want); i++ {
		g, w := "<none>", "<none>"
		if i < len(got) {
			g = got[i]
		}
		if i < len(want) {
			w = want[i]
		}
		if g != w {
			return fmt.Sprintf("event #%d: got %q, expected %q", i, trunc(g, 200), trunc(w, 200))
		}
	}
	return ""
}

func c04Sequences(g grammar, depth int) [][]token {
	var out [][]token
	var rec func(prefix []token)
	rec = func(prefix []token) {
		if len(prefix) > 0 {
			out = append(out, append([]token(nil), prefix...))
		}
		if len(prefix) == depth || (len(prefix) > 0 && prefix[len(prefix)-1].final) {
			return
		}
		for _, t := range g.tokens {
			rec(append(prefix, t))
		}
	}
	rec(nil)
	return out
}

func runC04(c *core.Ctx) {
	depth := 2
	maxCut2, dribbleMax := 0, 200
	if c.Thorough() {
		depth = 3
		maxCut2 = 64
	}
	tcp := []grammar{ftpGrammar(), smtpGrammar(), redisGrammar(), memcachedGrammar(false), telnetGrammar(), httpGrammar(), ldapGrammar()}
	tcp = append(tcp, httpishGrammars()...)
	for _, g := range tcp {
		g := g
		d := depth
		if g.oneShot {
			d = 1
		}
		for _, seq := range c04Sequences(g, d) {
			seq := seq
			if !c.Thorough() && len(seq) == 2 && len(seq[0].bytes)+len(seq[1].bytes) > 1500 {
				continue // two large requests: covered in the thorough tier
			}
			c.Case(fmt.Sprintf("%s/%s", g.svc, tokNames(seq)), func() {
				want := expectedEvents(g, seq)
				for _, dl := range deliveries(seq, maxCut2, dribbleMax) {
					got, tr := c04Session(c, g, seq, dl)
					c.Count("executions", 1)
					if strings.Join(got, "\n") != strings.Join(want, "\n") {
						kind := diffKind(got, want)
						how := dl.name
						if strings.HasPrefix(how, "cut@") {
							how = "cut"
						}
						c.Violationf(fmt.Sprintf("C04:%s:%s:%s", g.svc, kind, how), "%s tokens=[%s] delivery=%s: %d events recorded, %d expected; %s; reply transcript %q",
							g.svc, tokNames(seq), dl.name, len(got), len(want), firstDiff(got, want), trunc(tr, 160))
					}
					c.Outcome(g.svc, strings.Join(got, "\n"))
				}
				if c.WantSample() && len(seq) == 2 {
					c.Sample(map[string]interface{}{"service": g.svc, "tokens": tokNames(seq), "stream_bytes": len(seq[0].bytes) + len(seq[1].bytes), "expected_events": want})
				}
			})
		}
	}
	// UDP: every datagram alone and all orders of <= 3 datagrams through the dispatcher
	for _, g := range udpGrammars() {
		g := g
		ud := 2
		if c.Thorough() {
			ud = 3
		}
		for _, seq := range c04Sequences(g, ud) {
			seq := seq
			c.Case(fmt.Sprintf("udp/%s/%s", g.svc, tokNames(seq)), func() {
				s := startSvc(g.svc)
				defer s.Stop()
				sp := svcSpecs[g.svc]
				// one source address per datagram: the amplification limiter of the UDP services
				// (C10) admits four commands per source address and drops the rest before they
				// are decoded, which is not what this property is about
				for i, t := range seq {
					ip, port := clientAddr(i)
					s.SendUDP(serverIP, sp.port, ip, port, t.bytes)
					lab.Quiesce()
					c.Count("transitions", 1)
				}
				lab.Quiesce()
				var got []string
				for i := range seq {
					for _, e := range eventsOf(i) {
						if s := g.canon(e); s != "" {
							got = append(got, s)
						}
					}
				}
				want := expectedEvents(g, seq)
				c.Count("executions", 1)
				if strings.Join(got, "\n") != strings.Join(want, "\n") {
					c.Violationf(fmt.Sprintf("C04:%s:%s:datagram", g.svc, diffKind(got, want)), "%s datagrams=[%s]: %d events recorded, %d expected; %s", g.svc, tokNames(seq), len(got), len(want), firstDiff(got, want))
				}
				c.Outcome(g.svc, strings.Join(got, "\n"))
			})
		}
	}
}

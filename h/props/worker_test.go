package props

import (
	"os"
	"runtime/debug"
	"strconv"
	"syscall"
	"testing"
	"testing/synctest"

	logging "github.com/op/go-logging"

	"verif/h/core"
	"verif/h/lab"
)

// TestWorker is the entry point of every worker process. The orchestrator
// (/verif/vf) sets VF_PROP/VF_TIER/VF_SHARD/VF_NSHARDS/VF_OUT and runs
//
//	vfh.test -test.run '^TestWorker$' -test.timeout 0
func TestWorker(t *testing.T) {
	prop := os.Getenv("VF_PROP")
	if prop == "" {
		t.Skip("VF_PROP not set")
	}
	d, ok := drivers[prop]
	if !ok {
		t.Fatalf("no driver for %s", prop)
	}
	c := core.FromEnv()
	c.ArmDeadline()
	debug.SetGCPercent(200)
	// sixteen workers share the machine: the collector works harder from 2.5 GiB on, and a worker whose
	// live heap passes the recycle limit (core: 1 GiB) hands its shard to a fresh process
	debug.SetMemoryLimit(5 << 29)
	cpuBudget, heapBudget := 10.0, uint64(768<<20)
	if d.cpuBudget > 0 {
		cpuBudget = d.cpuBudget
	}
	// Replays of a case that exceeded the CPU budget run with a five-fold budget: only a step that
	// exceeds it every time is reported (a slow machine must not turn into an alarm).
	if f, err := strconv.ParseFloat(os.Getenv("VF_CPU_SCALE"), 64); err == nil && f > 0 {
		cpuBudget *= f
	}
	core.StartWatchdog(cpuBudget, heapBudget)

	// Everything honeytrap prints goes to /dev/null; results travel in VF_OUT.
	if os.Getenv("VF_KEEP_STDOUT") == "" {
		if null, err := os.OpenFile("/dev/null", os.O_WRONLY, 0); err == nil {
			os.Stdout = null
		}
	}
	logging.SetBackend()

	if d.needsStorage {
		lab.Init()
		warmup()
	}
	if d.pre != nil {
		d.pre(c)
	}
	if d.noBubble {
		d.run(c)
		c.Finish()
		cleanup()
		syscall.Exit(0)
	}
	synctest.Test(t, func(t *testing.T) {
		d.run(c)
		c.Finish()
		cleanup()
		// A bubble cannot end while goroutines of dead server instances are
		// still parked; leave directly.
		syscall.Exit(0)
	})
}

func cleanup() {
	if os.Getenv("VF_KEEP_SCRATCH") == "" {
		os.RemoveAll(lab.ScratchDir())
	}
}

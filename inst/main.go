package main

import (
	"fmt"

	"golang.org/x/tools/go/packages"
)

func main() {
	cfg := &packages.Config{Mode: packages.NeedName | packages.NeedFiles | packages.NeedSyntax | packages.NeedTypes | packages.NeedTypesInfo | packages.NeedImports | packages.NeedDeps, Dir: "/repo"}
	pkgs, err := packages.Load(cfg, "./listener/agent")
	fmt.Println(len(pkgs), err)
	for _, p := range pkgs {
		fmt.Println(p.PkgPath, len(p.Syntax), p.Errors)
	}
}

//go:build verifinst

package props

import (
	"encoding/json"
	"fmt"
	"os"
	"path/filepath"
	"strings"
	"time"

	"github.com/honeytrap/honeytrap/event"
	file "github.com/honeytrap/honeytrap/pushers/file"
	"github.com/honeytrap/honeytrap/verifsched"

	"verif/h/core"
	"verif/h/lab"
)

// C07/fg — concurrent senders against the file channel's writer goroutine and
// Close under the fine-grain explorer: every schedule (bounded preemptions) of
// two or three goroutines calling Send, the writer loop and a closer, with the
// one-second flush either between the two rounds of sends or not. Oracle: every
// event whose Send returned is in the files exactly once as an intact JSON
// line.

func init() { register("C07/fg", driver{run: runC07FG}) }

func runC07FG(c *core.Ctx) {
	b := 2
	if c.Thorough() {
		b = 3
	}
	base := filepath.Join(lab.ScratchDir(), "c07fg")
	type scen struct {
		name    string
		rounds  [][][]int // round -> sender -> pads
		tickMid bool
		bound   int
	}
	scens := []scen{
		{"two senders, one round", [][][]int{{{900}, {100}}}, false, b},
		{"two senders, two rounds, flush between", [][][]int{{{900}, {100}}, {{1000}, {0}}}, true, b},
		{"two senders, two rounds, no flush between", [][][]int{{{900}, {100}}, {{1000}, {0}}}, false, b},
		{"three senders, rotation in the batch", [][][]int{{{600, 600}, {500}, {700}}}, false, b - 1},
	}
	for si, sc := range scens {
		si, sc := si, sc
		fgExplore(c, &fgScenario{
			prop:  "C07",
			name:  sc.name,
			bound: sc.bound,
			run: func(x *fgExec) map[string]string {
				v := map[string]string{}
				dir := filepath.Join(base, fmt.Sprintf("s%d", si))
				os.RemoveAll(dir)
				os.MkdirAll(dir, 0755)
				path := filepath.Join(dir, "ev.log")
				ch, err := c07NewBackend(path, 1024) // not under the scheduler: New itself starts the writer
				if err != nil {
					v["C07:fg:new"] = err.Error()
					return v
				}
				lab.Quiesce()
				verifsched.Activate()
				type sent struct{ sender, k, pad int }
				var want []sent
				for ri, round := range sc.rounds {
					for s, pads := range round {
						s, pads := s, pads
						for k, p := range pads {
							want = append(want, sent{s, ri*10 + k, p})
						}
						go func() {
							verifsched.Enter("sender", fmt.Sprint(s))
							for k, p := range pads {
								ch.Send(event.New(event.Category("c07"), event.Custom("sender", s), event.Custom("k", ri*10+k), event.Custom("pad", strings.Repeat("p", p)), event.Custom("bin", "\x00\xff\n\"")))
							}
						}()
					}
					x.drive()
					if sc.tickMid && ri < len(sc.rounds)-1 {
						time.Sleep(1100 * time.Millisecond)
						x.drive()
					}
				}
				time.Sleep(1100 * time.Millisecond)
				x.drive()
				closed := make(chan struct{})
				go func() {
					verifsched.Enter("closer", "")
					ch.(*file.FileBackend).Close()
					close(closed)
				}()
				x.drive()
				verifsched.Deactivate()
				lab.Quiesce()
				select {
				case <-closed:
				default:
					v["C07:fg:close-blocked"] = "Close has not returned although every goroutine is quiescent"
				}
				lines, torn, sizes, _ := c07ReadAll(path)
				if len(torn) > 0 {
					v["C07:fg:torn-line"] = fmt.Sprintf("lines that are not complete JSON documents: %v", torn)
				}
				seen := map[[2]int]int{}
				for _, l := range lines {
					var m map[string]interface{}
					json.Unmarshal([]byte(l), &m)
					if m["category"] != "c07" {
						continue
					}
					s, _ := m["sender"].(float64)
					k, _ := m["k"].(float64)
					seen[[2]int{int(s), int(k)}]++
					for _, w := range want {
						if w.sender == int(s) && w.k == int(k) {
							if pad, _ := m["pad"].(string); len(pad) != w.pad {
								v["C07:fg:field-changed"] = fmt.Sprintf("event %d of sender %d has a pad of %d bytes, sent %d", w.k, w.sender, len(pad), w.pad)
							}
						}
					}
				}
				for _, w := range want {
					if n := seen[[2]int{w.sender, w.k}]; n != 1 {
						v["C07:fg:event-count"] = fmt.Sprintf("event %d of sender %d appears %d times (files %v)", w.k, w.sender, n, sizes)
						break
					}
				}
				return v
			},
		})
	}
}

package props

import (
	"fmt"
	"regexp"
	"strings"

	"github.com/honeytrap/honeytrap/event"

	"verif/h/core"
	"verif/h/lab"
)

// C06 — every event reaches exactly the channels whose filters admit it.
// All configurations (channel sets x filter lists) are run through the real
// server.New + Run wiring; events are put on the real bus through the channel
// handle a service receives; per-channel delivery lists are compared with a
// reference routing model and with the projection of the configuration on
// that channel alone (non-interference).

func init() { register("C06", driver{run: runC06, needsStorage: true}) }

type c06Filter struct {
	chans []string
	cats  []string // nil = absent
	svcs  []string
	hasC  bool
	hasS  bool
}

func (f c06Filter) toml() string {
	var b strings.Builder
	b.WriteString("[[filter]]\nchannel=[")
	for i, c := range f.chans {
		if i > 0 {
			b.WriteString(",")
		}
		fmt.Fprintf(&b, "%q", c)
	}
	b.WriteString("]\n")
	wr := func(k string, l []string) {
		fmt.Fprintf(&b, "%s=[", k)
		for i, c := range l {
			if i > 0 {
				b.WriteString(",")
			}
			fmt.Fprintf(&b, "%q", c)
		}
		b.WriteString("]\n")
	}
	if f.hasC {
		wr("categories", f.cats)
	}
	if f.hasS {
		wr("services", f.svcs)
	}
	return b.String()
}

func (f c06Filter) String() string {
	c, s := "-", "-"
	if f.hasC {
		c = fmt.Sprint(f.cats)
	}
	if f.hasS {
		s = fmt.Sprint(f.svcs)
	}
	return fmt.Sprintf("{ch=%v cat=%s svc=%s}", f.chans, c, s)
}

type c06Event struct {
	cat, svc interface{} // string, int, or nil (missing)
}

var c06Events = []c06Event{
	{"a", "a"}, {"b", "a"}, {"a", "b"}, {"ab", "ab"}, {"", "a"}, {nil, "a"}, {"a", nil},
	{7, "a"}, {"a", 7}, {nil, nil}, {"x", "x"}, {"b", "b"},
}

func strOf(v interface{}) string {
	if s, ok := v.(string); ok {
		return s
	}
	return "" // missing or non-string fields match as the empty string
}

var rxCache = map[string]*regexp.Regexp{}

func rx(e string) *regexp.Regexp {
	r, ok := rxCache[e]
	if !ok {
		r = regexp.MustCompile(e)
		rxCache[e] = r
	}
	return r
}

func anyMatch(exprs []string, v string) bool {
	for _, e := range exprs {
		if rx(e).MatchString(v) {
			return true
		}
	}
	return false
}

// c06Model: per channel, ordered list of event sequence numbers delivered.
func c06Model(channels []string, filters []c06Filter) map[string][]int {
	exists := map[string]bool{}
	for _, c := range channels {
		exists[c] = true
	}
	type sub struct {
		ch string
		f  c06Filter
	}
	var subs []sub
	for _, f := range filters {
		for _, ch := range f.chans {
			if exists[ch] {
				subs = append(subs, sub{ch, f})
			}
		}
	}
	out := map[string][]int{}
	for i, e := range c06Events {
		for _, s := range subs {
			okC := !s.f.hasC || len(s.f.cats) == 0 || anyMatch(s.f.cats, strOf(e.cat))
			okS := !s.f.hasS || len(s.f.svcs) == 0 || anyMatch(s.f.svcs, strOf(e.svc))
			if okC && okS {
				out[s.ch] = append(out[s.ch], i)
			}
		}
	}
	return out
}

func c06Toml(channels []string, filters []c06Filter) string {
	var b strings.Builder
	for _, c := range channels {
		fmt.Fprintf(&b, "[channel.%s]\ntype=\"verif-capture\"\nid=%q\n\n", c, c)
	}
	b.WriteString("[service.emit]\ntype=\"verif-emit\"\n\n")
	for _, f := range filters {
		b.WriteString(f.toml())
		b.WriteString("\n")
	}
	return b.String()
}

// c06Run executes one configuration on the real server and returns the
// per-channel delivery lists plus a token problem description (if any).
func c06Run(channels []string, filters []c06Filter) (map[string][]int, string, error) {
	lab.ResetEvents()
	lab.ResetStubs()
	s, err := lab.Start(c06Toml(channels, filters))
	if err != nil {
		return nil, "", err
	}
	lab.Quiesce()
	defer s.Stop()
	em := lab.Emitters()
	if len(em) != 1 || em[0].Ch == nil {
		return nil, "", fmt.Errorf("emit stub not constructed")
	}
	for i, e := range c06Events {
		opts := []event.Option{event.Custom("seq", i)}
		if e.cat != nil {
			opts = append(opts, event.Custom("category", e.cat))
		}
		if e.svc != nil {
			opts = append(opts, event.Custom("service", e.svc))
		}
		em[0].Ch.Send(event.New(opts...))
	}
	lab.Quiesce()
	got := map[string][]int{}
	tokProblem := ""
	tok := lab.Token()
	for _, ch := range []string{"c1", "c2", "c3", "cX"} {
		for _, ev := range lab.Events(ch) {
			if lab.Str(ev, "category") == "heartbeat" {
				continue
			}
			seq, _ := ev["seq"].(int)
			got[ch] = append(got[ch], seq)
			if t, _ := ev["token"].(string); t != tok || tok == "" {
				tokProblem = fmt.Sprintf("event seq=%d on %s carries token %q, sensor token is %q", seq, ch, t, tok)
			}
		}
	}
	return got, tokProblem, nil
}

func eqLists(a, b map[string][]int, chans []string) string {
	for _, ch := range chans {
		if fmt.Sprint(a[ch]) != fmt.Sprint(b[ch]) {
			return fmt.Sprintf("channel %s received %v, expected %v", ch, a[ch], b[ch])
		}
	}
	return ""
}

func runC06(c *core.Ctx) {
	chanLists := [][]string{{"c1"}, {"c2"}, {"c1", "c2"}, {"c1", "c1"}, {"cX"}, {"c1", "cX"}}
	type exprs struct {
		has bool
		l   []string
	}
	exprLists := []exprs{{false, nil}, {true, []string{}}, {true, []string{"^a$"}}, {true, []string{"a|b"}}, {true, []string{"x", "a"}}, {true, []string{"^$"}}}
	var alphabet []c06Filter
	for _, cl := range chanLists {
		for _, ce := range exprLists {
			for _, se := range exprLists {
				alphabet = append(alphabet, c06Filter{chans: cl, cats: ce.l, svcs: se.l, hasC: ce.has, hasS: se.has})
			}
		}
	}
	// reduced alphabet for longer filter lists: pairwise-complete over (channel list, category list, service list)
	var reduced []c06Filter
	for i, cl := range chanLists {
		for j, ce := range exprLists {
			se := exprLists[(i+j)%len(exprLists)]
			reduced = append(reduced, c06Filter{chans: cl, cats: ce.l, svcs: se.l, hasC: ce.has, hasS: se.has})
		}
	}
	channelSets := [][]string{{"c1"}, {"c1", "c2"}, {"c1", "c2", "c3"}, {}}

	soloCache := map[string]map[string][]int{}

	runCfg := func(name string, channels []string, filters []c06Filter) {
		got, tokp, err := c06Run(channels, filters)
		c.Count("executions", 1)
		c.Count("transitions", int64(len(c06Events)))
		if err != nil {
			c.Violationf("C06:start", "%s: configuration did not start: %v", name, err)
			return
		}
		want := c06Model(channels, filters)
		all := []string{"c1", "c2", "c3", "cX"}
		if d := eqLists(got, want, all); d != "" {
			c.Violationf("C06:routing", "%s channels=%v filters=%v: %s", name, channels, filters, d)
			return
		}
		if tokp != "" {
			c.Violationf("C06:token", "%s: %s", name, tokp)
		}
		// non-interference: the projection of the configuration on one channel
		for _, ch := range channels {
			var pf []c06Filter
			for _, f := range filters {
				var keep []string
				for _, x := range f.chans {
					if x == ch {
						keep = append(keep, x)
					}
				}
				if len(keep) > 0 {
					g := f
					g.chans = keep
					pf = append(pf, g)
				}
			}
			key := ch + "|" + fmt.Sprint(pf)
			solo, ok := soloCache[key]
			if !ok {
				sg, _, err := c06Run([]string{ch}, pf)
				if err != nil {
					continue
				}
				c.Count("solo_runs", 1)
				solo = sg
				if len(soloCache) < 20000 {
					soloCache[key] = solo
				}
			}
			if fmt.Sprint(solo[ch]) != fmt.Sprint(got[ch]) {
				c.Violationf("C06:interference", "%s: channel %s received %v, but %v when it is the only channel configured (filters %v)", name, ch, got[ch], solo[ch], pf)
			}
		}
		c.Outcome(fmt.Sprint(got))
		if c.WantSample() && len(filters) == 2 && len(got) > 1 {
			c.Sample(map[string]interface{}{"channels": channels, "filters": fmt.Sprint(filters), "events": len(c06Events), "delivered_seq_per_channel": got})
		}
	}

	// depth 0..2 over the full alphabet, grouped into cases by first filter
	for csi, chans := range channelSets {
		chans := chans
		c.Case(fmt.Sprintf("cs%d/no-filter", csi), func() { runCfg("no-filter", chans, nil) })
		for i, f1 := range alphabet {
			f1 := f1
			c.Case(fmt.Sprintf("cs%d/f%d", csi, i), func() {
				runCfg(fmt.Sprintf("cs%d/f%d", csi, i), chans, []c06Filter{f1})
				if len(chans) == 0 {
					return
				}
				for j, f2 := range alphabet {
					runCfg(fmt.Sprintf("cs%d/f%d,f%d", csi, i, j), chans, []c06Filter{f1, f2})
				}
			})
		}
	}
	// depth 3 (and 4 in the thorough tier) over the reduced alphabet
	maxLen := 3
	if c.Thorough() {
		maxLen = 4
	}
	chans := []string{"c1", "c2", "c3"}
	for i := range reduced {
		for j := range reduced {
			i, j := i, j
			c.Case(fmt.Sprintf("long/r%d,r%d", i, j), func() {
				for k := range reduced {
					runCfg(fmt.Sprintf("long/r%d,r%d,r%d", i, j, k), chans, []c06Filter{reduced[i], reduced[j], reduced[k]})
					if maxLen >= 4 && (i+j+k)%4 == 0 {
						for l := range reduced {
							runCfg(fmt.Sprintf("long/r%d,r%d,r%d,r%d", i, j, k, l), chans, []c06Filter{reduced[i], reduced[j], reduced[k], reduced[l]})
						}
					}
				}
			})
		}
	}
}

package props

import (
	"bytes"
	"encoding/hex"
	"encoding/json"
	"fmt"
	"net"
	"sort"
	"strings"

	"github.com/honeytrap/honeytrap/event"

	"verif/h/core"
)

// C05 — recorded payloads are byte-exact and every emitted event serialises.
//
// Parts: payload (all 1- and 2-byte strings, boundary lengths x fill
// patterns), addr (address kinds x ports), options (ordered pairs/triples of
// constructor options vs. a map model), merge (MergeFrom/CopyFrom vs. a map
// model), harvest (every event emitted by the service dialogues of C04 is
// marshalled the way the channels do).

func init() {
	register("C05", driver{run: runC05, needsStorage: true})
}

// marshalLikeChannels serialises an event the three ways the channels do and
// checks that the decoded object has exactly the event's keys.
func marshalLikeChannels(e event.Event) (keys []string, err error) {
	want := map[string]bool{}
	e.Range(func(k, v interface{}) bool {
		if s, ok := k.(string); ok {
			want[s] = true
		}
		return true
	})
	check := func(b []byte, how string) error {
		var got map[string]interface{}
		if err := json.Unmarshal(b, &got); err != nil {
			return fmt.Errorf("%s: output does not parse: %v", how, err)
		}
		for k := range want {
			if _, ok := got[k]; !ok {
				return fmt.Errorf("%s: key %q missing from JSON", how, k)
			}
		}
		for k := range got {
			if !want[k] {
				return fmt.Errorf("%s: JSON has extra key %q", how, k)
			}
		}
		return nil
	}
	// kafka / pulsar / rabbitmq: json.Marshal(event)
	b, err := json.Marshal(e)
	if err != nil {
		return nil, fmt.Errorf("json.Marshal(event): %v", err)
	}
	if err := check(b, "json.Marshal(event)"); err != nil {
		return nil, err
	}
	// file: snapshot map + json.Encoder
	var buf bytes.Buffer
	if err := json.NewEncoder(&buf).Encode(event.ToMap(e)); err != nil {
		return nil, fmt.Errorf("Encoder.Encode(ToMap): %v", err)
	}
	if err := check(buf.Bytes(), "Encoder.Encode(ToMap)"); err != nil {
		return nil, err
	}
	if bytes.Count(buf.Bytes(), []byte("\n")) != 1 || buf.Bytes()[buf.Len()-1] != '\n' {
		return nil, fmt.Errorf("Encoder.Encode(ToMap): not exactly one line")
	}
	for k := range want {
		keys = append(keys, k)
	}
	sort.Strings(keys)
	return keys, nil
}

func c05CheckPayload(c *core.Ctx, data []byte, how string) {
	e := event.New(event.Payload(data))
	m := event.ToMap(e)
	hx, _ := m["payload-hex"].(string)
	dec, err := hex.DecodeString(hx)
	ln, lok := m["payload-length"].(int)
	if err != nil || !bytes.Equal(dec, data) {
		c.Violationf("C05:payload-hex", "%s len=%d: payload-hex %q does not decode to the bytes sent", how, len(data), trunc(hx, 80))
	}
	if !lok || ln != len(data) {
		c.Violationf("C05:payload-length", "%s: payload-length %v != %d", how, m["payload-length"], len(data))
	}
	if s, _ := m["payload"].(string); s != string(data) {
		c.Violationf("C05:payload-string", "%s: payload string differs from the bytes sent", how)
	}
	if _, err := marshalLikeChannels(e); err != nil {
		c.Violationf("C05:payload-json", "%s len=%d: %v", how, len(data), err)
	}
	// the JSON hex field survives a JSON round trip
	b, _ := json.Marshal(e)
	var back map[string]interface{}
	json.Unmarshal(b, &back)
	if hs, _ := back["payload-hex"].(string); hs != hex.EncodeToString(data) {
		c.Violationf("C05:payload-hex-json", "%s: payload-hex after JSON round trip differs", how)
	}
	if f, _ := back["payload-length"].(float64); int(f) != len(data) {
		c.Violationf("C05:payload-length-json", "%s: payload-length after JSON round trip differs", how)
	}
	c.Count("payloads", 1)
	c.Count("executions", 1)
}

func trunc(s string, n int) string {
	if len(s) > n {
		return s[:n] + "…"
	}
	return s
}

type c05opt struct {
	name string
	opt  event.Option
	kv   map[string]interface{}
}

func c05Options() []c05opt {
	tcp := &net.TCPAddr{IP: net.ParseIP("10.1.2.3"), Port: 4242}
	udp := &net.UDPAddr{IP: net.ParseIP("fe80::1"), Port: 53}
	return []c05opt{
		{"Category(a)", event.Category("a"), map[string]interface{}{"category": "a"}},
		{"Category(b)", event.Category("b"), map[string]interface{}{"category": "b"}},
		{"Type(t)", event.Type("t"), map[string]interface{}{"type": "t"}},
		{"Sensor(s)", event.Sensor("s"), map[string]interface{}{"sensor": "s"}},
		{"Service(x)", event.Service("x"), map[string]interface{}{"service": "x"}},
		{"Protocol(p)", event.Protocol("p"), map[string]interface{}{"protocol": "p"}},
		{"Token(k)", event.Token("k"), map[string]interface{}{"token": "k"}},
		{"SourceAddr(tcp)", event.SourceAddr(tcp), map[string]interface{}{"source-ip": "10.1.2.3", "source-port": 4242}},
		{"SourceAddr(udp)", event.SourceAddr(udp), map[string]interface{}{"source-ip": "fe80::1", "source-port": 53}},
		{"DestinationAddr(tcp)", event.DestinationAddr(tcp), map[string]interface{}{"destination-ip": "10.1.2.3", "destination-port": 4242}},
		{"SourcePort(7)", event.SourcePort(7), map[string]interface{}{"source-port": uint16(7)}},
		{"Custom(category,7)", event.Custom("category", 7), map[string]interface{}{"category": 7}},
		{"Payload(hi)", event.Payload([]byte("hi")), map[string]interface{}{"payload": "hi", "payload-hex": "6869", "payload-length": 2}},
		{"Message(m %d)", event.Message("m %d", 1), map[string]interface{}{"message": "m 1"}},
		{"nil", nil, map[string]interface{}{}},
		{"NewWith(Category(c),Type(u))", event.NewWith(event.Category("c"), event.Type("u")), map[string]interface{}{"category": "c", "type": "u"}},
	}
}

func eqMap(got map[string]interface{}, want map[string]interface{}) string {
	for k, v := range want {
		g, ok := got[k]
		if !ok {
			return fmt.Sprintf("missing key %q", k)
		}
		if fmt.Sprintf("%T:%v", g, g) != fmt.Sprintf("%T:%v", v, v) {
			return fmt.Sprintf("key %q = %T:%v, want %T:%v", k, g, g, v, v)
		}
	}
	for k := range got {
		if k == "date" {
			continue
		}
		if _, ok := want[k]; !ok {
			return fmt.Sprintf("unexpected key %q", k)
		}
	}
	return ""
}

func runC05(c *core.Ctx) {
	// ---- payload: all 1-byte and 2-byte strings
	c.Case("payload/1-byte", func() {
		for a := 0; a < 256; a++ {
			c05CheckPayload(c, []byte{byte(a)}, fmt.Sprintf("1-byte %02x", a))
		}
		c05CheckPayload(c, []byte{}, "empty")
		c05CheckPayload(c, nil, "nil")
		c.Sample(map[string]interface{}{"part": "payload", "bytes_hex": "ff", "event": event.ToMap(event.New(event.Payload([]byte{0xff})))["payload-hex"]})
	})
	for a := 0; a < 256; a++ {
		a := a
		c.Case(fmt.Sprintf("payload/2-byte/%02x??", a), func() {
			for b := 0; b < 256; b++ {
				c05CheckPayload(c, []byte{byte(a), byte(b)}, fmt.Sprintf("2-byte %02x%02x", a, b))
			}
			c.Outcome("2byte", fmt.Sprint(a))
		})
	}
	lens := []int{3, 4, 5, 6, 7, 8, 9, 10, 11, 12, 13, 14, 15, 16, 255, 256, 1023, 1024, 1025, 4095, 4096, 65535, 65536}
	type fill struct {
		name string
		f    func(i int) byte
	}
	fills := []fill{
		{"zero", func(i int) byte { return 0 }},
		{"ff", func(i int) byte { return 0xff }},
		{"mod251", func(i int) byte { return byte(i % 251) }},
		{"badutf8", func(i int) byte { return []byte{0xc3, 0x28, 0xe2, 0x82, 0xf0, 0x80, 0x00, 0x7f}[i%8] }},
		{"ctl", func(i int) byte { return []byte{'\n', '\r', '"', '\\', 0x1b, '<', 0x7f, 0xe2, 0x80, 0xa8}[i%10] }},
	}
	for _, n := range lens {
		for _, fl := range fills {
			n, name, f := n, fl.name, fl.f
			c.Case(fmt.Sprintf("payload/len%d/%s", n, name), func() {
				b := make([]byte, n)
				for i := range b {
					b[i] = f(i)
				}
				c05CheckPayload(c, b, fmt.Sprintf("len %d fill %s", n, name))
				c.Outcome("fill", name, fmt.Sprint(n))
			})
		}
	}

	// ---- addresses
	type addrCase struct {
		name     string
		a        net.Addr
		ip       string
		port     int
		recorded bool
	}
	var acs []addrCase
	ips := []net.IP{net.ParseIP("10.0.0.1").To4(), net.ParseIP("10.0.0.1"), net.ParseIP("2001:db8::1"), net.ParseIP("0.0.0.0"), net.ParseIP("::"), nil, net.ParseIP("255.255.255.255")}
	for _, ip := range ips {
		for _, p := range []int{0, 1, 255, 256, 32767, 32768, 65535} {
			acs = append(acs, addrCase{fmt.Sprintf("tcp/%v/%d", ip, p), &net.TCPAddr{IP: ip, Port: p}, ip.String(), p, true})
			acs = append(acs, addrCase{fmt.Sprintf("udp/%v/%d", ip, p), &net.UDPAddr{IP: ip, Port: p}, ip.String(), p, true})
		}
	}
	acs = append(acs, addrCase{"ipaddr", &net.IPAddr{IP: net.ParseIP("10.0.0.9")}, "", 0, false})
	acs = append(acs, addrCase{"unix", &net.UnixAddr{Name: "/x", Net: "unix"}, "", 0, false})
	c.Case("addr/all", func() {
		for _, ac := range acs {
			e := event.New(event.SourceAddr(ac.a), event.DestinationAddr(ac.a))
			m := event.ToMap(e)
			if ac.recorded {
				if m["source-ip"] != ac.ip || m["source-port"] != ac.port || m["destination-ip"] != ac.ip || m["destination-port"] != ac.port {
					c.Violationf("C05:addr", "%s: recorded %v:%v / %v:%v, want %s:%d", ac.name, m["source-ip"], m["source-port"], m["destination-ip"], m["destination-port"], ac.ip, ac.port)
				}
			} else {
				// other address kinds: nothing wrong may be recorded
				for _, k := range []string{"source-ip", "source-port", "destination-ip", "destination-port"} {
					if v, ok := m[k]; ok {
						c.Violationf("C05:addr-other", "%s: %s=%v recorded for a non TCP/UDP address", ac.name, k, v)
					}
				}
			}
			if _, err := marshalLikeChannels(e); err != nil {
				c.Violationf("C05:addr-json", "%s: %v", ac.name, err)
			}
			c.Count("addresses", 1)
			c.Count("executions", 1)
			c.Outcome("addr", ac.name)
		}
		c.Sample(map[string]interface{}{"part": "addr", "addr": "udp [2001:db8::1]:65535", "event": event.ToMap(event.New(event.SourceAddr(&net.UDPAddr{IP: net.ParseIP("2001:db8::1"), Port: 65535})))["source-ip"]})
	})

	// ---- ordered option tuples vs. a map model (later options overwrite)
	opts := c05Options()
	depth := 2
	if c.Thorough() {
		depth = 3
	}
	var rec func(prefix []int)
	rec = func(prefix []int) {
		if len(prefix) > 0 {
			var os []event.Option
			model := map[string]interface{}{}
			var names []string
			for _, i := range prefix {
				os = append(os, opts[i].opt)
				names = append(names, opts[i].name)
				for k, v := range opts[i].kv {
					model[k] = v
				}
			}
			e := event.New(os...)
			if d := eqMap(event.ToMap(e), model); d != "" {
				c.Violationf("C05:options", "event.New(%s): %s", strings.Join(names, ", "), d)
			}
			if _, err := marshalLikeChannels(e); err != nil {
				c.Violationf("C05:options-json", "event.New(%s): %v", strings.Join(names, ", "), err)
			}
			// Apply on an existing event behaves the same
			var nn []event.Option
			for _, o := range os {
				if o != nil { // only New documents skipping nil options
					nn = append(nn, o)
				}
			}
			e2 := event.Apply(event.New(), nn...)
			if d := eqMap(event.ToMap(e2), model); d != "" {
				c.Violationf("C05:options-apply", "event.Apply(%s): %s", strings.Join(names, ", "), d)
			}
			c.Count("option_tuples", 1)
			c.Count("executions", 1)
			c.Outcome("opts", strings.Join(names, ","))
		}
		if len(prefix) == depth {
			return
		}
		for i := range opts {
			rec(append(prefix, i))
		}
	}
	for i := range opts {
		i := i
		c.Case("options/"+opts[i].name, func() { rec([]int{i}) })
	}

	// ---- MergeFrom keeps, CopyFrom overwrites: all maps over 3 keys x value
	// kinds x all pre-existing key subsets
	keys := []string{"k1", "k2", "category"}
	vals := []interface{}{"new", 7, []string{"x"}, nil, map[string]interface{}{"n": 1.5}}
	c.Case("merge/all", func() {
		for pre := 0; pre < 8; pre++ {
			for dm := 1; dm < 8; dm++ {
				for vi, v := range vals {
					for pvi, pv := range []interface{}{"old", "", 7, true, []byte{0, 0xff}, uint16(22)} { // what the event already holds
						data := map[string]interface{}{}
						for i, k := range keys {
							if dm&(1<<i) != 0 {
								data[k] = v
							}
						}
						for _, mode := range []string{"merge", "copy"} {
							var preOpts []event.Option
							model := map[string]interface{}{}
							for i, k := range keys {
								if pre&(1<<i) != 0 {
									preOpts = append(preOpts, event.Custom(k, pv))
									model[k] = pv
								}
							}
							e := event.New(preOpts...)
							if mode == "merge" {
								event.MergeFrom(data)(e)
								for k, v := range data {
									if _, ok := model[k]; !ok {
										model[k] = v
									}
								}
							} else {
								event.CopyFrom(data)(e)
								for k, v := range data {
									model[k] = v
								}
							}
							if d := eqMap(event.ToMap(e), model); d != "" {
								c.Violationf("C05:"+mode, "%s pre=%03b (holding %#v) data=%03b val#%d: %s", mode, pre, pv, dm, vi, d)
							}
							if _, err := marshalLikeChannels(e); err != nil {
								c.Violationf("C05:"+mode+"-json", "%s pre=%03b data=%03b val#%d: %v", mode, pre, dm, vi, err)
							}
							c.Count("merges", 1)
							c.Count("executions", 1)
							c.Outcome(mode, fmt.Sprint(pre, dm, vi, pvi))
						}
					}
				}
			}
		}
		c.Sample(map[string]interface{}{"part": "merge", "pre": []string{"k1"}, "data": map[string]interface{}{"k1": "new", "k2": "new"}, "merge_expected": map[string]string{"k1": "old", "k2": "new"}})
	})

	// ---- harvest: every event the services emit serialises
	c05Harvest(c)
}

package props

import (
	"crypto/md5"
	"encoding/binary"
	"encoding/hex"
	"fmt"
	"strconv"
	"strings"

	"verif/h/core"
	"verif/h/lab"
)

// C13 — the recorded JA3 fingerprint is the specification's JA3 of the
// ClientHello sent. The harness writes TLS records itself (no TLS library),
// computes JA3 from its own description of the hello with a 40-line reference,
// and compares with https.ja3-digest / https.server-name of the event the
// https service records for the connection.

func init() { register("C13", driver{run: runC13, needsStorage: true}) }

type tlsExt struct {
	typ  uint16
	body []byte
}

type hello struct {
	vers    uint16
	ciphers []uint16
	exts    []tlsExt
	sni     string
	groups  []uint16 // as sent in supported_groups (nil = extension absent)
	points  []byte   // as sent in ec_point_formats (nil = absent)
	desc    string
}

func isGrease(v uint16) bool { return v&0x0f0f == 0x0a0a && v>>8 == v&0xff }

func u16s(vs []uint16) []byte {
	b := make([]byte, 2*len(vs))
	for i, v := range vs {
		binary.BigEndian.PutUint16(b[2*i:], v)
	}
	return b
}

func withLen16(b []byte) []byte {
	return append([]byte{byte(len(b) >> 8), byte(len(b))}, b...)
}

func extSNI(name string) tlsExt {
	entry := append([]byte{0, byte(len(name) >> 8), byte(len(name))}, name...)
	return tlsExt{0, withLen16(entry)}
}
func extGroups(g []uint16) tlsExt { return tlsExt{10, withLen16(u16s(g))} }
func extPoints(p []byte) tlsExt   { return tlsExt{11, append([]byte{byte(len(p))}, p...)} }

// handshake message bytes (type 1 + 3-byte length + body)
func (h *hello) message() []byte {
	var b []byte
	b = append(b, byte(h.vers>>8), byte(h.vers))
	for i := 0; i < 32; i++ {
		b = append(b, byte(i*7+1))
	}
	b = append(b, 0) // empty session id
	b = append(b, withLen16(u16s(h.ciphers))...)
	b = append(b, 1, 0) // null compression
	if h.exts != nil {
		var e []byte
		for _, x := range h.exts {
			e = append(e, byte(x.typ>>8), byte(x.typ))
			e = append(e, withLen16(x.body)...)
		}
		b = append(b, withLen16(e)...)
	}
	return append([]byte{1, byte(len(b) >> 16), byte(len(b) >> 8), byte(len(b))}, b...)
}

// records wraps the handshake message into TLS records, cut at the given offsets.
func records(msg []byte, cuts ...int) []byte {
	var out []byte
	prev := 0
	for _, c := range append(cuts, len(msg)) {
		if c <= prev || c > len(msg) {
			continue
		}
		frag := msg[prev:c]
		out = append(out, 22, 3, 1, byte(len(frag)>>8), byte(len(frag)))
		out = append(out, frag...)
		prev = c
	}
	return out
}

// refJA3 is the specification's JA3 string for the hello as described.
func refJA3(h *hello) string {
	join := func(vs []string) string { return strings.Join(vs, "-") }
	var ciphers, exts, groups, points []string
	for _, c := range h.ciphers {
		if !isGrease(c) {
			ciphers = append(ciphers, strconv.Itoa(int(c)))
		}
	}
	for _, e := range h.exts {
		if !isGrease(e.typ) {
			exts = append(exts, strconv.Itoa(int(e.typ)))
		}
	}
	for _, g := range h.groups {
		if !isGrease(g) {
			groups = append(groups, strconv.Itoa(int(g)))
		}
	}
	for _, p := range h.points {
		points = append(points, strconv.Itoa(int(p)))
	}
	return fmt.Sprintf("%d,%s,%s,%s,%s", h.vers, join(ciphers), join(exts), join(groups), join(points))
}

func md5hex(s string) string {
	d := md5.Sum([]byte(s))
	return hex.EncodeToString(d[:])
}

// ---- generator

var (
	cipherShapes = map[string][]uint16{
		"one":          {0xc02f},
		"two":          {0xc02f, 0x009c},
		"forty":        nil, // filled in init
		"grease-first": {0x0a0a, 0xc02b, 0xc02f, 0x002f},
		"grease-mid":   {0xc02b, 0x5a5a, 0xc02f, 0x002f},
		"grease-last":  {0xc02b, 0xc02f, 0x002f, 0xfafa},
		"grease-multi": {0x1a1a, 0xc02f, 0x2a2a, 0x009c, 0xeaea},
		"scsv-ff":      {0xc02f, 0x002f, 0x00ff},
		"scsv-5600":    {0xc02f, 0x5600, 0x000a},
		"rsa-only":     {0x002f, 0x0035, 0x000a},
	}
	cipherOrder = []string{"one", "two", "forty", "grease-first", "grease-mid", "grease-last", "grease-multi", "scsv-ff", "scsv-5600", "rsa-only"}
	groupShapes = map[string][]uint16{
		"absent": nil, "x25519": {29}, "p256-p384": {23, 24}, "grease-first": {0x3a3a, 29, 23}, "grease-last": {29, 23, 0x8a8a}, "many": {29, 23, 24, 25, 256, 257},
	}
	groupOrder  = []string{"absent", "x25519", "p256-p384", "grease-first", "grease-last", "many"}
	pointShapes = [][]byte{nil, {0}, {0, 1}, {0, 1, 2}}
)

func init() {
	var f []uint16
	for i := 0; i < 40; i++ {
		f = append(f, uint16(0xc000+i))
	}
	f[3] = 0xc02f
	f[7] = 0x4a4a
	cipherShapes["forty"] = f
}

type extKind struct {
	name string
	mk   func(h *hello) tlsExt
}

func extKinds(groups []uint16, points []byte, sni string) []extKind {
	ks := []extKind{
		{"status_request", func(h *hello) tlsExt { return tlsExt{5, []byte{1, 0, 0, 0, 0}} }},
		{"sig_algs", func(h *hello) tlsExt { return tlsExt{13, withLen16(u16s([]uint16{0x0403, 0x0804, 0x0401}))} }},
		{"alpn", func(h *hello) tlsExt { return tlsExt{16, withLen16(append([]byte{2}, "h2"...))} }},
		{"sct", func(h *hello) tlsExt { return tlsExt{18, nil} }},
		{"session_ticket", func(h *hello) tlsExt { return tlsExt{35, nil} }},
		{"unknown-1234", func(h *hello) tlsExt { return tlsExt{0x1234, []byte{1, 2, 3}} }},
		{"grease-ext", func(h *hello) tlsExt { return tlsExt{0x6a6a, []byte{0}} }},
		{"grease-ext2", func(h *hello) tlsExt { return tlsExt{0xbaba, nil} }},
		{"reneg", func(h *hello) tlsExt { return tlsExt{0xff01, []byte{0}} }},
		{"ems", func(h *hello) tlsExt { return tlsExt{23, nil} }},
		{"padding", func(h *hello) tlsExt { return tlsExt{21, make([]byte, 7)} }},
	}
	if groups != nil {
		ks = append(ks, extKind{"groups", func(h *hello) tlsExt { h.groups = groups; return extGroups(groups) }})
	}
	if points != nil {
		ks = append(ks, extKind{"points", func(h *hello) tlsExt { h.points = points; return extPoints(points) }})
	}
	if sni != "" {
		ks = append(ks, extKind{"sni", func(h *hello) tlsExt { h.sni = sni; return extSNI(sni) }})
	}
	return ks
}

func runC13(c *core.Ctx) {
	var srv *lab.Server
	server := func() *lab.Server {
		if srv == nil {
			srv = startSvc("https")
		}
		return srv
	}
	conns := 0
	check := func(h *hello, wire []byte, how string) (digest string) {
		s := server()
		lab.ResetEvents()
		conns++
		conn := dial(s, "https", conns%7)
		conn.Send(wire)
		lab.Quiesce()
		conn.CloseWrite()
		settleConn(conn)
		c.Count("executions", 1)
		c.Count("transitions", 1)
		want := refJA3(h)
		var got, gotName string
		found := false
		for _, e := range allEvents() {
			if lab.Str(e, "category") == "https" {
				got, gotName = lab.Str(e, "https.ja3-digest"), lab.Str(e, "https.server-name")
				found = true
			}
		}
		class := h.desc
		if !found {
			c.Violationf("C13:no-event:"+class, "%s (%s): no https event recorded for a well-formed ClientHello; expected ja3 %s = md5(%q)", h.desc, how, md5hex(want), want)
			return ""
		}
		if got != md5hex(want) {
			c.Violationf("C13:digest:"+class, "%s (%s): recorded ja3-digest %q, specification gives %s = md5(%q)", h.desc, how, got, md5hex(want), want)
		}
		if gotName != h.sni && got != "" {
			c.Violationf("C13:server-name:"+class, "%s (%s): recorded server name %q, SNI sent %q", h.desc, how, gotName, h.sni)
		}
		c.Outcome(want)
		return got
	}

	build := func(vers uint16, cname string, kinds []extKind, desc string) *hello {
		h := &hello{vers: vers, ciphers: cipherShapes[cname], desc: desc}
		if kinds != nil {
			h.exts = []tlsExt{}
		}
		for _, k := range kinds {
			h.exts = append(h.exts, k.mk(h))
		}
		return h
	}

	versions := []uint16{0x0300, 0x0301, 0x0302, 0x0303}

	// 1. version x cipher shape x (no extensions | baseline extensions), SNI none/present
	for _, v := range versions {
		for _, cn := range cipherOrder {
			v, cn := v, cn
			c.Case(fmt.Sprintf("base/v%04x/%s", v, cn), func() {
				h := build(v, cn, nil, "ciphers="+cn+" no-extensions "+fmt.Sprintf("v%04x", v))
				check(h, records(h.message()), "one record")
				for _, sni := range []string{"", "a.example"} {
					ks := extKinds([]uint16{29, 23}, []byte{0}, sni)
					// baseline order: sni, groups, points, sig_algs, reneg
					pick := func(names ...string) []extKind {
						var out []extKind
						for _, n := range names {
							for _, k := range ks {
								if k.name == n {
									out = append(out, k)
								}
							}
						}
						return out
					}
					h2 := build(v, cn, pick("sni", "groups", "points", "sig_algs", "reneg"), "ciphers="+cn+" baseline-extensions "+fmt.Sprintf("v%04x", v))
					check(h2, records(h2.message()), "one record")
				}
				if c.WantSample() && v == 0x0303 && cn == "grease-mid" {
					c.Sample(map[string]interface{}{"hello": h.desc, "ja3_string": refJA3(h), "ja3_digest": md5hex(refJA3(h))})
				}
			})
		}
	}

	// 2. extension layouts: all ordered selections of <= 3 (thorough 4) from the kinds, for group/point shapes
	maxSel := 3
	if c.Thorough() {
		maxSel = 4
	}
	for gi, gn := range groupOrder {
		for pi, pts := range pointShapes {
			if !c.Thorough() && (gi+pi)%2 == 1 {
				continue
			}
			gn, pts := gn, pts
			ks := extKinds(groupShapes[gn], pts, "b.example")
			for fi := range ks {
				fi := fi
				c.Case(fmt.Sprintf("layout/groups=%s/points=%d/first=%s", gn, len(pts), ks[fi].name), func() {
					var rec func(sel []int)
					rec = func(sel []int) {
						var kinds []extKind
						var names []string
						for _, i := range sel {
							kinds = append(kinds, ks[i])
							names = append(names, ks[i].name)
						}
						h := build(0x0303, "grease-mid", kinds, "extensions="+classOf(names)+" groups="+gn)
						h.desc = "extensions=[" + strings.Join(names, ",") + "] groups=" + gn + fmt.Sprintf(" points=%d", len(pts))
						dsc := h.desc
						h.desc = "layout:" + classOf(names) + ":groups=" + gn
						_ = dsc
						check(h, records(h.message()), dsc)
						if len(sel) == maxSel {
							return
						}
						for i := range ks {
							// duplicates only of types whose body JA3 does not read
							dup := false
							for _, j := range sel {
								if j == i {
									dup = true
								}
							}
							if dup && (ks[i].name == "groups" || ks[i].name == "points" || ks[i].name == "sni") {
								continue
							}
							rec(append(append([]int(nil), sel...), i))
						}
					}
					rec([]int{fi})
				})
			}
		}
	}

	// 3. GREASE twins: same hello, different GREASE values -> same digest
	c.Case("grease-twins", func() {
		greases := []uint16{0x0a0a, 0x1a1a, 0x7a7a, 0xfafa}
		var digests []string
		for _, g := range greases {
			h := &hello{vers: 0x0303, ciphers: []uint16{g, 0xc02b, 0xc02f, 0x009c}, exts: []tlsExt{}, desc: "grease-twin"}
			h.exts = append(h.exts, tlsExt{g ^ 0x1010, nil})
			h.sni = "twin.example"
			h.exts = append(h.exts, extSNI(h.sni))
			h.groups = []uint16{g, 29, 23}
			h.exts = append(h.exts, extGroups(h.groups))
			h.points = []byte{0}
			h.exts = append(h.exts, extPoints(h.points), tlsExt{13, withLen16(u16s([]uint16{0x0403}))})
			d := check(h, records(h.message()), fmt.Sprintf("grease value %04x", g))
			digests = append(digests, d)
		}
		for _, d := range digests[1:] {
			if d != digests[0] {
				c.Violationf("C13:grease-twins", "hellos that differ only in their GREASE values got different digests: %v", digests)
				break
			}
		}
	})

	// 3b. value sweep: every 16-bit value as a cipher suite, as an extension type and as a named
	// group (256 values per hello): exactly the sixteen GREASE values are left out, nothing else
	knownExt := map[uint16]bool{0: true, 5: true, 10: true, 11: true, 13: true, 16: true, 18: true, 23: true, 35: true, 43: true, 45: true, 51: true, 13172: true, 0xff01: true}
	for _, field := range []string{"cipher", "extension", "group"} {
		for hi0 := 0; hi0 < 256; hi0 += 16 {
			field, hi0 := field, hi0
			c.Case(fmt.Sprintf("sweep/%s/%02x00-%02xff", field, hi0, hi0+15), func() {
				for hi := hi0; hi < hi0+16; hi++ {
					h := &hello{vers: 0x0303, ciphers: []uint16{0xc02f}, exts: []tlsExt{}, desc: "sweep-" + field}
					var vals []uint16
					for lo := 0; lo < 256; lo++ {
						vals = append(vals, uint16(hi<<8|lo))
					}
					switch field {
					case "cipher":
						h.ciphers = append(vals, 0xc02f)
					case "extension":
						for _, v := range vals {
							if !knownExt[v] {
								h.exts = append(h.exts, tlsExt{v, nil})
							}
						}
					case "group":
						h.groups = vals
						h.exts = append(h.exts, extGroups(h.groups))
					}
					check(h, records(h.message()), fmt.Sprintf("all %s values %02x00..%02xff", field, hi, hi))
				}
			})
		}
	}

	// 4. record-layer fragmentation: every single split point, and 1-byte first record
	frag := []*hello{}
	for _, cn := range []string{"two", "grease-mid", "forty"} {
		ks := extKinds([]uint16{0x3a3a, 29, 23}, []byte{0, 1}, "frag.example")
		h := build(0x0303, cn, ks, "fragmented ciphers="+cn)
		h.desc = "fragmented"
		frag = append(frag, h)
	}
	for hi, h := range frag {
		hi, h := hi, h
		msg := h.message()
		chunk := 40
		for base := 1; base < len(msg); base += chunk {
			base := base
			c.Case(fmt.Sprintf("fragment/%d/%d", hi, base), func() {
				for p := base; p < base+chunk && p < len(msg); p++ {
					check(h, records(msg, p), fmt.Sprintf("hello split into two records at %d of %d", p, len(msg)))
				}
			})
		}
		c.Case(fmt.Sprintf("fragment/%d/three", hi), func() {
			check(h, records(msg, 1, 5), "records of 1, 4 and the rest")
			check(h, records(msg, 4, len(msg)-1), "records of 4, rest, 1")
			// the same bytes in several TCP segments
			s := server()
			wire := records(msg)
			lab.ResetEvents()
			conn := dial(s, "https", 1)
			for _, sg := range splitAll(wire, 11) {
				conn.Send(sg)
				lab.Quiesce()
			}
			conn.CloseWrite()
			settleConn(conn)
			for _, e := range allEvents() {
				if lab.Str(e, "category") == "https" && lab.Str(e, "https.ja3-digest") != md5hex(refJA3(h)) {
					c.Violationf("C13:digest:segmented", "hello delivered in 11-byte segments: recorded %q, expected %s", lab.Str(e, "https.ja3-digest"), md5hex(refJA3(h)))
				}
			}
		})
	}
}

// classOf abstracts an extension layout for violation signatures.
func classOf(names []string) string {
	has := func(n string) bool {
		for _, x := range names {
			if strings.HasPrefix(x, n) {
				return true
			}
		}
		return false
	}
	var p []string
	if has("grease") {
		p = append(p, "grease-ext")
	}
	if has("groups") {
		p = append(p, "groups")
	}
	if len(p) == 0 {
		return "plain"
	}
	return strings.Join(p, "+")
}

func splitAll(b []byte, n int) [][]byte {
	var out [][]byte
	for len(b) > n {
		out = append(out, b[:n])
		b = b[n:]
	}
	if len(b) > 0 {
		out = append(out, b)
	}
	return out
}

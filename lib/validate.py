#!/usr/bin/env python3
"""Validate MANIFEST.json and evidence files against the schemas (needs python3-vt for jsonschema)."""
import json, sys, glob, jsonschema
jsonschema.validate(json.load(open('MANIFEST.json')), json.load(open('/root/.vp/MANIFEST.schema.json')))
es = json.load(open('/root/.vp/EVIDENCE.schema.json'))
for p in sorted(glob.glob('evidence/*.json')):
    jsonschema.validate(json.load(open(p)), es)
    print("ok", p)
print('manifest valid')

// Package verifsched is the runtime of the fine-grain cooperative scheduler. It
// exists only in instrumented builds (it is added to the honeytrap module
// through `go build -overlay`, under the build of the harness with tag
// verifinst); instrumented copies of selected honeytrap files call Yield / Lock
// / Access at their synchronisation points.
//
// While the scheduler is inactive every call is a no-op (Lock/Unlock just lock
// and unlock). While it is active, every instrumented goroutine parks at each
// point on a private channel created inside the synctest bubble, so
// synctest.Wait() in the explorer returns exactly when every goroutine is
// either parked at a point or natively blocked; the explorer then releases one
// parked goroutine of its choice.
package verifsched

import (
	"fmt"
	"os"
	"runtime"
	"sort"
	"strconv"
	"strings"
	"sync"
	"sync/atomic"
	"syscall"
)

type Locker interface {
	Lock()
	Unlock()
	TryLock() bool
}

type RLocker interface {
	Locker
	RLock()
	RUnlock()
	TryRLock() bool
}

// Point is a goroutine parked at a scheduling point.
type Point struct {
	G      string // stable goroutine label
	Site   string
	Kind   string      // yield | lock | access
	Obj    interface{} // lock or map identity
	Write  bool
	wake   chan struct{}
	goid   int64
	seq    int64
	rlock  bool
	locker Locker
}

var (
	active  atomic.Bool
	mu      sync.Mutex
	parked  []*Point
	labels  = map[int64]string{}
	counts  = map[string]int{}
	held    = map[interface{}]int{} // write-held locks (count 1) / reader counts (negative)
	seq     int64
	lastRun string
)

// Activate resets the scheduler state and turns parking on.
func Activate() {
	mu.Lock()
	parked = nil
	labels = map[int64]string{}
	counts = map[string]int{}
	held = map[interface{}]int{}
	seq = 0
	lastRun = ""
	mu.Unlock()
	active.Store(true)
}

// Deactivate turns parking off and releases everything that is parked.
func Deactivate() {
	active.Store(false)
	mu.Lock()
	ps := parked
	parked = nil
	mu.Unlock()
	for _, p := range ps {
		close(p.wake)
	}
}

func goid() int64 {
	var buf [64]byte
	n := runtime.Stack(buf[:], false)
	// "goroutine 123 ["
	s := strings.TrimPrefix(string(buf[:n]), "goroutine ")
	if i := strings.IndexByte(s, ' '); i > 0 {
		id, _ := strconv.ParseInt(s[:i], 10, 64)
		return id
	}
	return 0
}

// Enter names the calling goroutine (function plus a tag computed from its
// arguments), so that goroutine labels do not depend on arrival order.
func Enter(fn, tag string) {
	if !active.Load() {
		return
	}
	id := goid()
	mu.Lock()
	if _, ok := labels[id]; !ok {
		labels[id] = fn + "[" + tag + "]"
	}
	mu.Unlock()
}

func labelLocked(id int64, site string) string {
	if l, ok := labels[id]; ok {
		return l
	}
	counts[site]++
	l := fmt.Sprintf("g@%s#%d", site, counts[site])
	labels[id] = l
	return l
}

func park(kind, site string, obj interface{}, write bool, lk Locker, rl bool) {
	id := goid()
	p := &Point{Site: site, Kind: kind, Obj: obj, Write: write, wake: make(chan struct{}), goid: id, locker: lk, rlock: rl}
	mu.Lock()
	p.G = labelLocked(id, site)
	seq++
	p.seq = seq
	parked = append(parked, p)
	mu.Unlock()
	<-p.wake
}

// Yield is a scheduling point before a channel operation, select or go statement.
func Yield(site string) {
	if !active.Load() {
		return
	}
	park("yield", site, nil, false, nil, false)
}

// Access is a scheduling point before an access to a shared map.
func Access(obj interface{}, write bool, site string) {
	if !active.Load() {
		return
	}
	park("access", site, obj, write, nil, false)
}

// Lock replaces x.Lock(): park until chosen while the lock is free, then take it.
func Lock(m Locker, site string) {
	if !active.Load() {
		m.Lock()
		return
	}
	for {
		park("lock", site, m, true, m, false)
		if !active.Load() {
			m.Lock()
			return
		}
		if m.TryLock() {
			mu.Lock()
			held[m] = 1
			mu.Unlock()
			return
		}
	}
}

func Unlock(m Locker) {
	if active.Load() {
		mu.Lock()
		delete(held, m)
		mu.Unlock()
	}
	m.Unlock()
}

func RLock(m RLocker, site string) {
	if !active.Load() {
		m.RLock()
		return
	}
	for {
		park("lock", site, m, false, m, true)
		if !active.Load() {
			m.RLock()
			return
		}
		if m.TryRLock() {
			mu.Lock()
			held[m]--
			mu.Unlock()
			return
		}
	}
}

func RUnlock(m RLocker) {
	if active.Load() {
		mu.Lock()
		held[m]++
		if held[m] == 0 {
			delete(held, m)
		}
		mu.Unlock()
	}
	m.RUnlock()
}

// Enabled returns the parked goroutines that can make progress, in canonical
// order: the goroutine released last first (continuing it is not a
// preemption), then by label; and the parked goroutines waiting for a held lock.
func Enabled() (enabled []*Point, blocked []*Point) {
	mu.Lock()
	defer mu.Unlock()
	for _, p := range parked {
		if p.Kind == "lock" {
			h := held[p.Obj]
			if (p.rlock && h > 0) || (!p.rlock && h != 0) {
				blocked = append(blocked, p)
				continue
			}
		}
		enabled = append(enabled, p)
	}
	sort.SliceStable(enabled, func(i, j int) bool {
		a, b := enabled[i], enabled[j]
		if (a.G == lastRun) != (b.G == lastRun) {
			return a.G == lastRun
		}
		return a.G < b.G
	})
	return
}

// LastRun is the label of the goroutine released last.
func LastRun() string {
	mu.Lock()
	defer mu.Unlock()
	return lastRun
}

// Release lets p run until its next point (or until it blocks or ends).
func Release(p *Point) {
	mu.Lock()
	for i, q := range parked {
		if q == p {
			parked = append(parked[:i], parked[i+1:]...)
			break
		}
	}
	lastRun = p.G
	mu.Unlock()
	close(p.wake)
}

// Conflict reports two parked goroutines whose pending accesses touch the same
// map, at least one writing: they are simultaneously enabled, i.e. they can
// execute in parallel in a real run.
func Conflict() (a, b *Point) {
	mu.Lock()
	defer mu.Unlock()
	for i, p := range parked {
		if p.Kind != "access" {
			continue
		}
		for _, q := range parked[i+1:] {
			if q.Kind == "access" && q.Obj == p.Obj && (p.Write || q.Write) && q.goid != p.goid {
				return p, q
			}
		}
	}
	return nil, nil
}

// CrashPoint is a fault-injection point the instrumenter places behind a durable write: the process
// ends abruptly (no deferred calls, no flushing) at the VF_CRASH_AT-th point it passes.
var crashCount atomic.Int64

func CrashPoint(site string) {
	n := crashCount.Add(1)
	if at, err := strconv.ParseInt(os.Getenv("VF_CRASH_AT"), 10, 64); err == nil && at == n {
		syscall.Kill(syscall.Getpid(), syscall.SIGKILL)
		select {}
	}
}

package props

import (
	"context"
	"fmt"
	"net"
	"runtime/debug"
	"strings"
	"sync"
	"syscall"

	"github.com/honeytrap/honeytrap/event"
	"github.com/honeytrap/honeytrap/listener/canary"

	"verif/h/lab"
)

// canaryLab wraps a raw listener built through the verif hook.
type canaryLab struct {
	c      *canary.Canary
	peerFd int
	mu     sync.Mutex
	events []lab.EventMap
	cancel context.CancelFunc
}

type canaryChan struct{ l *canaryLab }

func (cc canaryChan) Send(e event.Event) {
	m := event.ToMap(e)
	cc.l.mu.Lock()
	cc.l.events = append(cc.l.events, m)
	cc.l.mu.Unlock()
}

func (l *canaryLab) takeEvents() []lab.EventMap {
	l.mu.Lock()
	defer l.mu.Unlock()
	out := l.events
	l.events = nil
	return out
}

type canaryCfg struct {
	arpFor   []net.IP // client addresses with an ARP entry
	routeVia net.IP   // default-route gateway (nil = no route)
	arpGw    bool     // ARP entry for the gateway
}

func newCanaryLab(cfg canaryCfg) *canaryLab {
	intf, err := net.InterfaceByName("lo")
	if err != nil {
		panic(err)
	}
	l := &canaryLab{}
	var arp []canary.VerifARPEntry
	for _, ip := range cfg.arpFor {
		arp = append(arp, canary.VerifARPEntry{IP: ip, HardwareAddress: macClient, Interface: "lo"})
	}
	var routes []canary.VerifRoute
	if cfg.routeVia != nil {
		routes = append(routes, canary.VerifRoute{Interface: "lo", Gateway: cfg.routeVia, Destination: net.IPNet{IP: net.IPv4(0, 0, 0, 0), Mask: net.IPv4Mask(0, 0, 0, 0)}})
		if cfg.arpGw {
			arp = append(arp, canary.VerifARPEntry{IP: cfg.routeVia, HardwareAddress: net.HardwareAddr{0x02, 0, 0, 0, 0, 0x77}, Interface: "lo"})
		}
	}
	c, fd, err := canary.VerifNew(canaryChan{l}, *intf, arp, routes)
	if err != nil {
		panic(err)
	}
	l.c, l.peerFd = c, fd
	return l
}

// newCanaryLabK is newCanaryLab with the port-scan detector running, as it
// always is behind Start(): the packet handlers block on the knock channel
// once it holds 100 unconsumed knocks.
func newCanaryLabK(cfg canaryCfg) *canaryLab {
	l := newCanaryLab(cfg)
	l.startKnock()
	return l
}

// close stops the detector (if started) and releases the descriptors.
func (l *canaryLab) close() {
	if l.cancel != nil {
		l.cancel()
	}
	l.c.VerifClose()
	syscall.Close(l.peerFd)
}

func (l *canaryLab) startKnock() {
	ctx, cancel := context.WithCancel(context.Background())
	l.cancel = cancel
	l.c.VerifStartKnockDetector(ctx)
}

// inject runs one frame through the real dispatch; a panic is what would have
// killed the receive loop (it has no recover) and is returned as text together
// with the innermost honeytrap frame.
func (l *canaryLab) inject(frame []byte) (panicked, where string) {
	defer func() {
		if r := recover(); r != nil {
			panicked = fmt.Sprint(r)
			for _, line := range strings.Split(string(debug.Stack()), "\n") {
				if strings.HasPrefix(line, "github.com/honeytrap/honeytrap/") && !strings.Contains(line, "VerifInject") {
					where = strings.TrimPrefix(line, "github.com/honeytrap/honeytrap/")
					if i := strings.LastIndex(where, "("); i > 0 {
						where = where[:i]
					}
					break
				}
			}
		}
	}()
	l.c.VerifInject(frame)
	return
}

func clientIP(k int) net.IP { return net.IPv4(10, 1, byte(k>>8), byte(k)) }

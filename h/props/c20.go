package props

import (
	"fmt"
	"net"
	"os"
	"sort"
	"strings"
	"time"

	"github.com/honeytrap/honeytrap/listener/canary"

	"verif/h/core"
	"verif/h/lab"
)

// C20 — a port scan is reported once, listing exactly the ports probed.
//
// (a) the grouping container: explicit-state search over all operation
//     sequences of length <= 6 over {Add k, Remove k, Each, Each that removes
//     the visited element} x 3 keys against a slice-set reference;
// (b) the detector: bursts of SYN / UDP-to-undecoded-port / ICMP-echo frames
//     are injected through the real packet handlers, the real knockDetector
//     goroutine runs on the bubble's fake clock; all interleavings of several
//     sources' probes, bursts of 1..150, clock jumps inside a burst.

func init() { register("C20", driver{run: runC20}) }

// ---------------------------------------------------------------- (a) UniqueSet

type usKey struct{ id int }

type usOp struct {
	kind string // add remove each each-remove
	k    int
}

func (o usOp) String() string {
	if o.kind == "add" || o.kind == "remove" {
		return fmt.Sprintf("%s(%d)", o.kind, o.k)
	}
	return o.kind
}

// usRun executes ops on a fresh real set and on the reference; returns a description of the first divergence.
func usRun(ops []usOp) (div string, state string) {
	keys := []*usKey{{0}, {1}, {2}}
	real := canary.NewUniqueSet(func(a, b interface{}) bool { return a.(*usKey).id == b.(*usKey).id })
	var ref []*usKey
	refHas := func(k *usKey) int {
		for i, x := range ref {
			if x.id == k.id {
				return i
			}
		}
		return -1
	}
	for i, o := range ops {
		where := fmt.Sprintf("op #%d %s of %v", i, o, ops)
		var panicked interface{}
		func() {
			defer func() { panicked = recover() }()
			switch o.kind {
			case "add":
				got := real.Add(keys[o.k])
				if j := refHas(keys[o.k]); j < 0 {
					ref = append(ref, keys[o.k])
				}
				if got.(*usKey).id != o.k {
					div = where + ": Add returned a different element"
				}
			case "remove":
				real.Remove(keys[o.k])
				if j := refHas(keys[o.k]); j >= 0 {
					ref = append(append([]*usKey(nil), ref[:j]...), ref[j+1:]...)
				}
			case "each", "each-remove":
				var visited []int
				real.Each(func(i int, v interface{}) {
					if v == nil {
						visited = append(visited, -1)
						return
					}
					visited = append(visited, v.(*usKey).id)
					if o.kind == "each-remove" {
						real.Remove(v)
					}
				})
				var want []int
				for _, x := range ref {
					want = append(want, x.id)
				}
				if fmt.Sprint(visited) != fmt.Sprint(want) {
					div = fmt.Sprintf("%s: visited %v, the set holds %v (every element exactly once)", where, visited, want)
				}
				if o.kind == "each-remove" {
					ref = nil
				}
			}
		}()
		if panicked != nil {
			return fmt.Sprintf("%s: panic %v", where, panicked), ""
		}
		if div != "" {
			return div, ""
		}
		if real.Count() != len(ref) {
			return fmt.Sprintf("%s: Count()=%d, reference %d", where, real.Count(), len(ref)), ""
		}
	}
	var ids []string
	for _, x := range ref {
		ids = append(ids, fmt.Sprint(x.id))
	}
	return "", strings.Join(ids, ",")
}

// ---------------------------------------------------------------- (b) detector

type probe struct {
	proto string // tcp udp icmp
	port  uint16
}

func (p probe) String() string {
	if p.proto == "icmp" {
		return "icmp"
	}
	return fmt.Sprintf("%s/%d", p.proto, p.port)
}

func probeFrame(src net.IP, p probe, n int) []byte {
	switch p.proto {
	case "tcp":
		return frameTCP(src, tcpOpts{sport: uint16(30000 + n), dport: p.port, seq: uint32(1000 + n), flags: fSYN}, nil)
	case "udp":
		return frameUDP(src, uint16(30000+n), p.port, []byte("x"))
	}
	return frameICMP(src, 7, uint16(n))
}

type scanReport struct {
	src, dst string
	ports    []string
}

func c20Reports(l *canaryLab) []scanReport {
	var out []scanReport
	for _, e := range l.takeEvents() {
		if lab.Str(e, "category") != "portscan" {
			continue
		}
		ports, _ := e["portscan.ports"].([]string)
		out = append(out, scanReport{lab.Str(e, "source-ip"), lab.Str(e, "destination-ip"), append([]string(nil), ports...)})
	}
	return out
}

// c20Drain advances the fake clock until two ticks pass without a report.
func c20Drain(l *canaryLab) []scanReport {
	var all []scanReport
	quiet := 0
	for i := 0; i < 40 && quiet < 3; i++ {
		lab.Advance(5*time.Second + time.Millisecond)
		r := c20Reports(l)
		if len(r) == 0 {
			quiet++
		} else {
			quiet = 0
			all = append(all, r...)
		}
	}
	return all
}

type burstStep struct {
	src  int
	p    probe
	jump time.Duration // clock jump before this probe
}

func c20Check(c *core.Ctx, name string, steps []burstStep, strict bool) {
	l := newCanaryLab(canaryCfg{arpFor: allClients()})
	l.startKnock()
	defer l.close()
	lab.Quiesce()
	want := map[int]map[string]bool{}
	var pre []scanReport
	for i, s := range steps {
		if s.jump > 0 {
			lab.Advance(s.jump)
			rr := c20Reports(l)
			if os.Getenv("C20DBG") != "" && len(rr) > 0 {
				fmt.Fprintf(os.Stderr, "C20DBG before step %d: %v\n", i, rr)
			}
			pre = append(pre, rr...)
		}
		if p, w := l.inject(probeFrame(clientIP(s.src), s.p, i)); p != "" {
			c.Violationf("C20:panic:"+w, "%s: probe %v panicked: %s", name, s.p, p)
			return
		}
		lab.Quiesce()
		if want[s.src] == nil {
			want[s.src] = map[string]bool{}
		}
		want[s.src][s.p.String()] = true
		c.Count("transitions", 1)
	}
	l.c.VerifDrainTx()
	reports := append(pre, c20Drain(l)...)
	c.Count("executions", 1)
	desc := func() string {
		var parts []string
		for _, s := range steps {
			j := ""
			if s.jump > 0 {
				j = fmt.Sprintf("[+%v]", s.jump)
			}
			parts = append(parts, fmt.Sprintf("%ssrc%d:%s", j, s.src, s.p))
		}
		if len(parts) > 14 {
			parts = append(parts[:14], fmt.Sprintf("… (%d probes)", len(steps)))
		}
		return strings.Join(parts, " ")
	}
	for src, set := range want {
		ip := clientIP(src).String()
		got := map[string]int{}
		events := 0
		for _, r := range reports {
			if r.src != ip {
				continue
			}
			events++
			if r.dst != ipServer.String() {
				c.Violationf("C20:wrong-destination", "%s [%s]: report for %s names destination %s", name, desc(), ip, r.dst)
			}
			seen := map[string]bool{}
			for _, p := range r.ports {
				if seen[p] {
					c.Violationf("C20:duplicate-in-report:"+protoOf(p), "%s [%s]: the report for %s lists %s more than once: %v", name, desc(), ip, p, r.ports)
				}
				seen[p] = true
				got[p]++
			}
		}
		var missing, extra, twice []string
		for p := range set {
			if got[p] == 0 {
				missing = append(missing, p)
			}
			if got[p] > 1 {
				twice = append(twice, p)
			}
		}
		for p := range got {
			if !set[p] {
				extra = append(extra, p)
			}
		}
		sort.Strings(missing)
		sort.Strings(extra)
		sort.Strings(twice)
		if len(missing) > 0 {
			c.Violationf("C20:not-reported:"+protoOf(missing[0]), "%s [%s]: source %s probed %v but %v never appear in a port-scan event (events for it: %d)", name, desc(), ip, keysOf(set), missing, events)
		}
		if len(extra) > 0 {
			c.Violationf("C20:reported-not-probed", "%s [%s]: port-scan events for %s list %v, which it never probed", name, desc(), ip, extra)
		}
		if strict && len(twice) > 0 {
			c.Violationf("C20:reported-twice:"+protoOf(twice[0]), "%s [%s]: %v of source %s appear in more than one report of the same burst", name, desc(), twice, ip)
		}
		if strict {
			// one report per protocol group and burst
			protos := map[string]bool{}
			for p := range set {
				protos[protoOf(p)] = true
			}
			if events > len(protos) {
				c.Violationf("C20:too-many-reports", "%s [%s]: %d port-scan events for source %s in one burst, expected one per protocol probed (%d)", name, desc(), events, ip, len(protos))
			}
		}
		c.Class(fmt.Sprintf("events=%d pairs=%d", events, len(set)))
	}
	for _, r := range reports {
		known := false
		for src := range want {
			if clientIP(src).String() == r.src {
				known = true
			}
		}
		if !known {
			c.Violationf("C20:report-for-stranger", "%s: a port-scan event names source %s, which sent nothing", name, r.src)
		}
	}
	c.Outcome(fmt.Sprint(len(reports)), desc())
}

func protoOf(p string) string {
	if i := strings.Index(p, "/"); i > 0 {
		return p[:i]
	}
	return p
}

func keysOf(m map[string]bool) []string {
	var k []string
	for s := range m {
		k = append(k, s)
	}
	sort.Strings(k)
	return k
}

func runC20(c *core.Ctx) {
	// ---- (a) UniqueSet: all operation sequences of length <= 6 (explicit-state: states = reference set contents)
	var usOps []usOp
	for k := 0; k < 3; k++ {
		usOps = append(usOps, usOp{"add", k})
	}
	for k := 0; k < 3; k++ {
		usOps = append(usOps, usOp{"remove", k})
	}
	usOps = append(usOps, usOp{"each", 0}, usOp{"each-remove", 0})
	for fi := range usOps {
		fi := fi
		c.Case("uniqueset/first="+usOps[fi].String(), func() {
			states := map[string]bool{}
			n := 0
			var rec func(seq []usOp)
			rec = func(seq []usOp) {
				div, st := usRun(seq)
				n++
				if div != "" {
					kinds := ""
					for _, o := range seq {
						kinds += o.kind[:1]
					}
					c.Violationf("C20:uniqueset:"+seq[len(seq)-1].kind, "UniqueSet: %s", div)
					return // do not extend a diverged history
				}
				states[st] = true
				if len(seq) == 6 {
					return
				}
				for _, o := range usOps {
					rec(append(append([]usOp(nil), seq...), o))
				}
			}
			rec([]usOp{usOps[fi]})
			c.Count("executions", int64(n))
			c.Count("transitions", int64(n))
			c.Count("states", int64(len(states)))
			c.Outcome("uniqueset", usOps[fi].String(), fmt.Sprint(n))
			if fi == 0 {
				c.Sample(map[string]interface{}{"part": "uniqueset", "sequences_from_this_first_op": n, "example": "add(0) add(1) add(2) each-remove each"})
			}
		})
	}

	// ---- (b) detector
	alpha := []probe{{"tcp", 8081}, {"tcp", 8082}, {"udp", 9}, {"udp", 10}, {"icmp", 0}, {"tcp", 80}}
	// single source: all probe sequences of length <= 4 (with repeats)
	for fi := range alpha {
		fi := fi
		c.Case("burst/first="+alpha[fi].String(), func() {
			var rec func(seq []probe)
			rec = func(seq []probe) {
				var steps []burstStep
				for _, p := range seq {
					steps = append(steps, burstStep{src: 1, p: p})
				}
				c20Check(c, "single source", steps, true)
				if len(seq) == 4 || (!c.Thorough() && len(seq) == 3) {
					return
				}
				for _, p := range alpha {
					rec(append(append([]probe(nil), seq...), p))
				}
			}
			rec([]probe{alpha[fi]})
		})
	}
	// long bursts with repeated ports
	for _, n := range []int{5, 100, 101, 150} {
		for _, shape := range []string{"tcp-only", "udp-only", "mixed", "udp-sweep", "tcp-late-port"} {
			n, shape := n, shape
			c.Case(fmt.Sprintf("burst/long/%d/%s", n, shape), func() {
				var steps []burstStep
				for i := 0; i < n; i++ {
					var p probe
					switch shape {
					case "tcp-only":
						p = probe{"tcp", uint16(8081 + i%4)}
					case "udp-only":
						p = probe{"udp", uint16(9 + i%4)}
					case "udp-sweep": // every probe a new port
						p = probe{"udp", uint16(3000 + i)}
					case "tcp-late-port": // one port over and over, a new one only at the very end
						p = probe{"tcp", 8081}
						if i == n-1 {
							p = probe{"tcp", 8099}
						}
					default:
						p = alpha[i%len(alpha)]
					}
					steps = append(steps, burstStep{src: 2, p: p})
				}
				c20Check(c, fmt.Sprintf("burst of %d probes (%s)", n, shape), steps, true)
			})
		}
	}
	// paced bursts: time passes between the probes (less than the detector's 5 s of silence), so
	// detector ticks fall inside the burst; a second source sends three probes at the start
	for _, n := range []int{30, 101, 150} {
		for _, gap := range []time.Duration{50 * time.Millisecond, time.Second, 4900 * time.Millisecond} {
			for _, shape := range []string{"tcp-only", "mixed"} {
				n, gap, shape := n, gap, shape
				c.Case(fmt.Sprintf("burst/paced/%d/%v/%s", n, gap, shape), func() {
					var steps []burstStep
					for i := 0; i < n; i++ {
						p := probe{"tcp", uint16(8081 + i%60)}
						if shape == "mixed" {
							p = alpha[i%len(alpha)]
						}
						st := burstStep{src: 2, p: p}
						if i > 0 {
							st.jump = gap
						}
						steps = append(steps, st)
						if i < 3 {
							steps = append(steps, burstStep{src: 3, p: probe{"tcp", uint16(2200 + i)}})
						}
					}
					c20Check(c, fmt.Sprintf("paced burst of %d probes, %v apart (%s)", n, gap, shape), steps, true)
				})
			}
		}
	}
	// one source probing two of the sensor's addresses: reported per destination. The second address
	// is that of any other interface of the machine (hook VerifAddInterface); without one the case is skipped.
	c.Case("destinations/one source, two sensor addresses", func() {
		var second net.IP
		var intf2 net.Interface
		ifs, _ := net.Interfaces()
		for _, it := range ifs {
			if it.Name == "lo" {
				continue
			}
			addrs, _ := it.Addrs()
			for _, a := range addrs {
				if n, ok := a.(*net.IPNet); ok && n.IP.To4() != nil && second == nil {
					second, intf2 = n.IP.To4(), it
				}
			}
		}
		if second == nil {
			c.Note("no second interface with an IPv4 address: the two-destination scan scenarios were not run")
			return
		}
		dsts := []net.IP{ipServer, second}
		for _, proto := range []string{"tcp", "udp"} {
			for _, order := range [][]int{{0, 1, 0, 1}, {0, 0, 1, 1}, {1, 0, 0, 1}} {
				l := newCanaryLab(canaryCfg{arpFor: allClients()})
				l.c.VerifAddInterface(intf2)
				l.startKnock()
				lab.Quiesce()
				src := clientIP(5)
				want := map[string]map[string]bool{}
				for i, di := range order {
					port := uint16(8081 + i)
					var f []byte
					if proto == "tcp" {
						f = eth(macServer, macClient, 0x0800, ip4(ipOpts{proto: 6, src: src, dst: dsts[di], totalLen: -1}, tcpSeg(tcpOpts{sport: uint16(30000 + i), dport: port, seq: uint32(1000 + i), flags: fSYN}, src, dsts[di], nil)))
					} else {
						f = eth(macServer, macClient, 0x0800, ip4(ipOpts{proto: 17, src: src, dst: dsts[di], totalLen: -1}, udpDgram(uint16(30000+i), port, -1, []byte("x"))))
					}
					if p, w := l.inject(f); p != "" {
						c.Violationf("C20:panic:"+w, "probe to %s panicked: %s", dsts[di], p)
					}
					lab.Quiesce()
					d := dsts[di].String()
					if want[d] == nil {
						want[d] = map[string]bool{}
					}
					want[d][fmt.Sprintf("%s/%d", proto, port)] = true
					c.Count("transitions", 1)
				}
				l.c.VerifDrainTx()
				reports := c20Drain(l)
				c.Count("executions", 1)
				desc := fmt.Sprintf("one source probes the sensor addresses %v over %s in the order %v", dsts, proto, order)
				for d, set := range want {
					n := 0
					got := map[string]bool{}
					for _, r := range reports {
						if r.src == src.String() && r.dst == d {
							n++
							for _, p := range r.ports {
								got[p] = true
							}
						}
					}
					if n != 1 {
						c.Violationf("C20:per-destination:count", "%s: %d port-scan events for destination %s, expected one (all reports: %v)", desc, n, d, reports)
					} else if fmt.Sprint(keysOf(got)) != fmt.Sprint(keysOf(set)) {
						c.Violationf("C20:per-destination:ports", "%s: the event for destination %s lists %v, probed there: %v", desc, d, keysOf(got), keysOf(set))
					}
				}
				l.close()
				c.Outcome("two-destinations", proto, fmt.Sprint(order), fmt.Sprint(len(reports)))
			}
		}
	})
	// several sources: all interleavings of their probes, <= 6 probes total
	type multi struct{ lens []int }
	for mi, m := range []multi{{[]int{3, 3}}, {[]int{2, 2, 2}}, {[]int{2, 2, 1, 1}}, {[]int{1, 1, 1, 1}}, {[]int{4, 2}}} {
		mi, m := mi, m
		for variant := 0; variant < 3; variant++ {
			variant := variant
			c.Case(fmt.Sprintf("sources/%v/variant%d", m.lens, variant), func() {
				interleavings(m.lens, func(order []int) {
					sent := make([]int, len(m.lens))
					var steps []burstStep
					for _, who := range order {
						p := alpha[(who*2+sent[who]+variant)%len(alpha)]
						if variant == 2 {
							p = alpha[(sent[who]+variant)%3] // all sources probe the same ports
						}
						sent[who]++
						steps = append(steps, burstStep{src: 10 + who, p: p})
					}
					c20Check(c, fmt.Sprintf("%d sources interleaved", len(m.lens)), steps, true)
				})
				if c.WantSample() && mi == 0 {
					c.Sample(map[string]interface{}{"part": "detector", "sources": len(m.lens), "probes_per_source": m.lens, "interleavings": "all"})
				}
			})
		}
	}
	// clock jumps inside a burst (<= 2 per history); only completeness is judged then
	jumps := []time.Duration{5 * time.Second, 6 * time.Second, 61 * time.Second}
	base := []probe{{"tcp", 8081}, {"udp", 9}, {"tcp", 8081}, {"icmp", 0}, {"tcp", 8082}}
	for _, j1 := range jumps {
		j1 := j1
		c.Case(fmt.Sprintf("jumps/%v", j1), func() {
			for p1 := 1; p1 < len(base); p1++ {
				for _, j2 := range append([]time.Duration{0}, jumps...) {
					for p2 := p1; p2 < len(base); p2++ {
						if j2 == 0 && p2 > p1 {
							continue
						}
						var steps []burstStep
						for i, p := range base {
							st := burstStep{src: 1 + i%2, p: p}
							if i == p1 {
								st.jump = j1
							}
							if j2 > 0 && i == p2 && p2 != p1 {
								st.jump = j2
							}
							steps = append(steps, st)
						}
						c20Check(c, "burst with clock jumps", steps, false)
					}
				}
			}
		})
	}
}

package props

import (
	"fmt"
	"sort"
	"strings"
	"time"

	"verif/h/lab"
	"verif/h/memconn"
)

// svcSpec describes how one emulated service is put on a port of a lab server.
type svcSpec struct {
	name  string // registry type
	proto string // tcp | udp
	port  int
	extra string // extra TOML for the service section
}

var svcSpecs = map[string]svcSpec{
	"adb":            {"adb", "tcp", 5555, ""},
	"counterstrike":  {"counterstrike", "udp", 27015, ""},
	"cwmp":           {"cwmp", "tcp", 7547, ""},
	"dns":            {"dns", "udp", 53, ""},
	"docker":         {"docker", "tcp", 2375, ""},
	"echo":           {"echo", "udp", 7, ""},
	"echo-tcp":       {"echo", "tcp", 7, ""},
	"elasticsearch":  {"elasticsearch", "tcp", 9200, ""},
	"eos":            {"eos", "tcp", 8888, ""},
	"ethereum":       {"ethereum", "tcp", 8545, ""},
	"ftp":            {"ftp", "tcp", 21, ""},
	"http":           {"http", "tcp", 80, ""},
	"https":          {"https", "tcp", 443, ""},
	"ipp":            {"ipp", "tcp", 631, ""},
	"ldap":           {"ldap", "tcp", 389, ""},
	"memcached":      {"memcached", "tcp", 11211, ""},
	"memcached-udp":  {"memcached", "udp", 11211, ""},
	"ntp":            {"ntp", "udp", 123, ""},
	"redis":          {"redis", "tcp", 6379, ""},
	"smtp":           {"smtp", "tcp", 25, ""},
	"snmp":           {"snmp", "udp", 161, ""},
	"ssh-auth":       {"ssh-auth", "tcp", 22, ""},
	"ssh-simulator":  {"ssh-simulator", "tcp", 2222, ""},
	"telnet":         {"telnet", "tcp", 23, ""},
	"tftp":           {"tftp", "udp", 69, ""},
	"vnc":            {"vnc", "tcp", 5900, ""},
}

const serverIP = "10.0.0.1"

func svcToml(names ...string) string {
	var b strings.Builder
	seen := map[string]bool{}
	for _, n := range names {
		sp := svcSpecs[n]
		if sp.name == "ftp" && sp.extra == "" {
			sp.extra = fmt.Sprintf("fs_base=%q", lab.ScratchDir()+"/ftpbase")
		}
		if !seen[sp.name] {
			seen[sp.name] = true
			fmt.Fprintf(&b, "[service.%s]\ntype=%q\n%s\n\n", sp.name, sp.name, sp.extra)
		}
		fmt.Fprintf(&b, "[[port]]\nport=\"%s/%d\"\nservices=[%q]\n\n", sp.proto, sp.port, sp.name)
	}
	b.WriteString("[channel.cap]\ntype=\"verif-capture\"\nid=\"cap\"\n\n[[filter]]\nchannel=[\"cap\"]\n")
	return b.String()
}

// startSvc starts a fresh lab server with the named services.
func startSvc(names ...string) *lab.Server {
	lab.ResetEvents()
	lab.ResetStubs()
	s, err := lab.Start(svcToml(names...))
	if err != nil {
		panic(err)
	}
	lab.Quiesce()
	if err := s.Attach(); err != nil {
		panic(err)
	}
	return s
}

// dial opens a TCP session from client number k (distinct address per client).
func dial(s *lab.Server, svc string, k int) *memconn.Conn {
	sp := svcSpecs[svc]
	return s.DialTCP(serverIP, sp.port, fmt.Sprintf("10.1.0.%d", 10+k), 40000+k)
}

func clientAddr(k int) (string, int) { return fmt.Sprintf("10.1.0.%d", 10+k), 40000 + k }

// eventsOf returns captured events (minus heartbeats) whose source is client k.
func eventsOf(k int) []lab.EventMap {
	ip, port := clientAddr(k)
	var out []lab.EventMap
	for _, e := range lab.Events("cap") {
		if lab.Str(e, "category") == "heartbeat" {
			continue
		}
		if lab.Str(e, "source-ip") == ip && lab.Str(e, "source-port") == fmt.Sprint(port) {
			out = append(out, e)
		}
	}
	return out
}

func allEvents() []lab.EventMap {
	var out []lab.EventMap
	for _, e := range lab.Events("cap") {
		if lab.Str(e, "category") == "heartbeat" {
			continue
		}
		out = append(out, e)
	}
	return out
}

// pick renders selected fields of an event as "k=v k=v".
func pick(e lab.EventMap, keys ...string) string {
	var parts []string
	for _, k := range keys {
		if _, ok := e[k]; ok {
			parts = append(parts, k+"="+lab.Str(e, k))
		}
	}
	return strings.Join(parts, " ")
}

// dumpEvent renders every field except volatile ones (debug aid).
func dumpEvent(e lab.EventMap) string {
	keys := make([]string, 0, len(e))
	for k := range e {
		if k == "date" || k == "token" || k == "stacktrace" {
			continue
		}
		keys = append(keys, k)
	}
	sort.Strings(keys)
	var parts []string
	for _, k := range keys {
		parts = append(parts, fmt.Sprintf("%s=%q", k, trunc(lab.Str(e, k), 60)))
	}
	return strings.Join(parts, " ")
}

// settle lets a closed/idle session run to its end: quiescence, then the 30 s
// idle deadline (fake time), then quiescence again.
func settle() {
	lab.Quiesce()
	lab.Advance(31 * time.Second)
}

// settleConn is settle for one TCP session: the fake clock is only advanced
// when the server has not closed the connection by itself.
func settleConn(c *memconn.Conn) {
	lab.Quiesce()
	if !c.Closed() {
		lab.Advance(31 * time.Second)
	}
}

package core

import (
	"fmt"
	"os"
	"runtime"
	"runtime/metrics"
	"strconv"
	"strings"
	"sync/atomic"
	"syscall"
	"time"
)

var progress atomic.Int64

// CurrentCase is the name of the case being run (for the step-cost log).
var CurrentCase atomic.Value

// Relaxed suspends the CPU criterion (harness set-up such as key generation has no budget).
var Relaxed atomic.Bool

var stepLog = func() float64 {
	f, _ := strconv.ParseFloat(os.Getenv("VF_STEPLOG"), 64)
	return f
}()

// HangBudget is the wall-clock time without progress and without CPU use after
// which the worker gives up (set before StartWatchdog).
var HangBudget = 120 * time.Second

func init() {
	if v := os.Getenv("VF_HANG_S"); v != "" {
		if n, err := strconv.Atoi(v); err == nil {
			HangBudget = time.Duration(n) * time.Second
		}
	}
}

// Tick records that the harness made progress (a step reached quiescence, a
// case began or ended). The watchdog measures CPU time and heap between ticks.
func Tick() { progress.Add(1) }

func cpuSeconds() float64 {
	var ru syscall.Rusage
	syscall.Getrusage(syscall.RUSAGE_SELF, &ru)
	return float64(ru.Utime.Sec+ru.Stime.Sec) + float64(ru.Utime.Usec+ru.Stime.Usec)/1e6
}

// StartWatchdog must be called outside the bubble (it lives on the real
// clock). If a single step burns more than cpuBudget seconds of CPU, or the
// heap grows by more than heapBudget bytes within one step, the handler under
// test "never quiesces / grows without input": dump the honeytrap goroutines
// and leave with exit code 97 so the orchestrator attributes it to the open case.
func StartWatchdog(cpuBudget float64, heapBudget uint64) {
	go func() {
		last := progress.Load()
		cpu0 := cpuSeconds()
		heap0 := heapBytes()
		t0 := time.Now()
		for {
			time.Sleep(100 * time.Millisecond)
			p := progress.Load()
			if p != last {
				if u := cpuSeconds() - cpu0; stepLog > 0 && u > stepLog {
					fmt.Fprintf(os.Stderr, "STEPCPU %.2fs wall %.2fs heap+%dMiB in %v\n", u, time.Since(t0).Seconds(), (int64(heapBytes())-int64(heap0))>>20, CurrentCase.Load())
				}
				last, cpu0, heap0, t0 = p, cpuSeconds(), heapBytes(), time.Now()
				heapHist = heapHist[:0]
				continue
			}
			used := cpuSeconds() - cpu0
			h := heapBytes()
			var why string
			hang := false
			if used > cpuBudget && !Relaxed.Load() {
				why = fmt.Sprintf("step used %.1fs of CPU without reaching quiescence", used)
			} else if h > heap0 && h-heap0 > heapBudget && stillGrowing(h) {
				why = fmt.Sprintf("heap grew by more than %d MiB within one step and is still growing without further input", heapBudget>>20)
			} else if time.Since(t0) > HangBudget && used < 2 {
				why = fmt.Sprintf("HANG: no progress for %v with an idle CPU: some goroutine is blocked where quiescence cannot be reached (lock held by a parked goroutine, or kernel I/O)", HangBudget)
				hang = true
			}
			if why == "" {
				continue
			}
			if hang {
				buf := make([]byte, 8<<20)
				n := runtime.Stack(buf, true)
				fmt.Fprintf(os.Stderr, "WATCHDOG: %s\n\n%s\n", why, buf[:n])
				syscall.Exit(98)
			}
			buf := make([]byte, 4<<20)
			n := runtime.Stack(buf, true)
			var keep []string
			for _, g := range strings.Split(string(buf[:n]), "\n\n") {
				if strings.Contains(g, "github.com/honeytrap/honeytrap/") && !strings.Contains(g, "[chan receive") && !strings.Contains(g, "[select") && !strings.Contains(g, "[sleep") {
					keep = append(keep, g)
				}
			}
			fmt.Fprintf(os.Stderr, "WATCHDOG: %s\n\n%s\n", why, strings.Join(keep, "\n\n"))
			syscall.Exit(97)
		}
	}()
}

// stillGrowing keeps the last few heap samples (one per 100 ms poll) and
// reports whether the heap grew by more than 32 MiB over the last half second:
// a single large allocation that then stays flat is not "growth that continues".
var heapHist []uint64

func stillGrowing(h uint64) bool {
	heapHist = append(heapHist, h)
	if len(heapHist) > 6 {
		heapHist = heapHist[len(heapHist)-6:]
	}
	return len(heapHist) == 6 && h > heapHist[0] && h-heapHist[0] > 32<<20
}

func heapBytes() uint64 {
	s := []metrics.Sample{{Name: "/memory/classes/heap/objects:bytes"}}
	metrics.Read(s)
	if s[0].Value.Kind() == metrics.KindUint64 {
		return s[0].Value.Uint64()
	}
	return 0
}

package lab

import (
	"testing/synctest"
	"time"
)

// Quiesce returns when every goroutine in the bubble is durably blocked.
func Quiesce() { synctest.Wait() }

// Advance moves the bubble's fake clock forward by d and waits for quiescence.
func Advance(d time.Duration) {
	time.Sleep(d)
	synctest.Wait()
}

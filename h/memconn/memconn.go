// Package memconn is an in-memory net.Conn whose inbound side is an explicit
// queue of segments: one Read returns (a prefix of) exactly one segment, so the
// harness decides every read boundary the server sees. All blocking is on
// channels and timers, so inside a testing/synctest bubble a blocked Read is
// durably blocked and deadlines follow the fake clock.
package memconn

import (
	"errors"
	"io"
	"net"
	"os"
	"sync"
	"time"
)

type Conn struct {
	mu      sync.Mutex
	in      [][]byte
	wake    chan struct{} // closed and replaced on every state change (broadcast)
	peerEOF bool          // harness closed its write side
	closed  bool          // server side called Close
	closes  int
	rdl     time.Time
	wdl     time.Time
	out     []byte
	taken   int
	writes  int
	reads   int
	local   net.Addr
	remote  net.Addr
	// WriteErr, if set, is returned by every Write (peer gone).
	WriteErr error
	// OnWrite, if set, is called (without the lock) with every chunk the
	// server writes.
	OnWrite func([]byte)
}

func New(local, remote net.Addr) *Conn {
	return &Conn{wake: make(chan struct{}), local: local, remote: remote}
}

func TCP(lip string, lport int, rip string, rport int) *Conn {
	return New(&net.TCPAddr{IP: net.ParseIP(lip), Port: lport}, &net.TCPAddr{IP: net.ParseIP(rip), Port: rport})
}

// pokeLocked wakes every blocked reader; c.mu must be held.
func (c *Conn) pokeLocked() {
	close(c.wake)
	c.wake = make(chan struct{})
}

// ---- harness side ----

// Send queues one segment for the server to read. Empty segments are ignored.
func (c *Conn) Send(seg []byte) {
	if len(seg) == 0 {
		return
	}
	c.mu.Lock()
	c.in = append(c.in, append([]byte(nil), seg...))
	c.pokeLocked()
	c.mu.Unlock()
}

// CloseWrite makes the server see EOF once the queued segments are consumed.
func (c *Conn) CloseWrite() {
	c.mu.Lock()
	c.peerEOF = true
	c.pokeLocked()
	c.mu.Unlock()
}

// Output returns everything the server wrote so far.
func (c *Conn) Output() []byte {
	c.mu.Lock()
	defer c.mu.Unlock()
	return append([]byte(nil), c.out...)
}

// Take returns what the server wrote since the last Take.
func (c *Conn) Take() []byte {
	c.mu.Lock()
	defer c.mu.Unlock()
	b := append([]byte(nil), c.out[c.taken:]...)
	c.taken = len(c.out)
	return b
}

// Closed reports whether the server closed the connection.
func (c *Conn) Closed() bool {
	c.mu.Lock()
	defer c.mu.Unlock()
	return c.closed
}

// Pending is the number of queued bytes the server has not read yet.
func (c *Conn) Pending() int {
	c.mu.Lock()
	defer c.mu.Unlock()
	n := 0
	for _, s := range c.in {
		n += len(s)
	}
	return n
}

// Reads is the number of Read calls that returned data.
func (c *Conn) Reads() int {
	c.mu.Lock()
	defer c.mu.Unlock()
	return c.reads
}

// ---- net.Conn (server side) ----

type timeoutErr struct{}

func (timeoutErr) Error() string   { return "i/o timeout" }
func (timeoutErr) Timeout() bool   { return true }
func (timeoutErr) Temporary() bool { return true }
func (timeoutErr) Unwrap() error   { return os.ErrDeadlineExceeded }

var ErrClosed = errors.New("use of closed network connection")

func (c *Conn) Read(p []byte) (int, error) {
	for {
		c.mu.Lock()
		if c.closed {
			c.mu.Unlock()
			return 0, ErrClosed
		}
		if len(c.in) > 0 {
			if len(p) == 0 {
				c.mu.Unlock()
				return 0, nil
			}
			n := copy(p, c.in[0])
			if n == len(c.in[0]) {
				c.in = c.in[1:]
			} else {
				c.in[0] = c.in[0][n:]
			}
			c.reads++
			c.mu.Unlock()
			return n, nil
		}
		if c.peerEOF {
			c.mu.Unlock()
			return 0, io.EOF
		}
		dl := c.rdl
		wake := c.wake
		c.mu.Unlock()
		if dl.IsZero() {
			<-wake
			continue
		}
		d := time.Until(dl)
		if d <= 0 {
			return 0, timeoutErr{}
		}
		t := time.NewTimer(d)
		select {
		case <-wake:
			t.Stop()
		case <-t.C:
		}
	}
}

func (c *Conn) Write(p []byte) (int, error) {
	c.mu.Lock()
	if c.closed {
		c.mu.Unlock()
		return 0, ErrClosed
	}
	if c.WriteErr != nil {
		e := c.WriteErr
		c.mu.Unlock()
		return 0, e
	}
	c.out = append(c.out, p...)
	c.writes++
	f := c.OnWrite
	c.mu.Unlock()
	if f != nil {
		f(append([]byte(nil), p...))
	}
	return len(p), nil
}

func (c *Conn) Close() error {
	c.mu.Lock()
	c.closed = true
	c.closes++
	c.pokeLocked()
	c.mu.Unlock()
	return nil
}

func (c *Conn) LocalAddr() net.Addr  { return c.local }
func (c *Conn) RemoteAddr() net.Addr { return c.remote }

func (c *Conn) SetDeadline(t time.Time) error {
	c.mu.Lock()
	c.rdl, c.wdl = t, t
	c.pokeLocked()
	c.mu.Unlock()
	return nil
}

func (c *Conn) SetReadDeadline(t time.Time) error {
	c.mu.Lock()
	c.rdl = t
	c.pokeLocked()
	c.mu.Unlock()
	return nil
}

func (c *Conn) SetWriteDeadline(t time.Time) error {
	c.mu.Lock()
	c.wdl = t
	c.mu.Unlock()
	return nil
}

package memconn

import (
	"io"
	"net"
	"sync"
	"time"
)

// Pair returns the two ends of a buffered, in-memory, full-duplex connection
// for client libraries (x/crypto/ssh, crypto/tls) that need a real net.Conn on
// the client side. Writes never block (unbounded buffer); Reads block on
// channels/timers only, so they are durably blocked inside a synctest bubble.
// An optional chunk size limits how many bytes one Read returns (segmentation).
func Pair(serverLocal, serverRemote net.Addr) (server, client *End) {
	a2b := newHalf()
	b2a := newHalf()
	server = &End{r: b2a, w: a2b, local: serverLocal, remote: serverRemote}
	client = &End{r: a2b, w: b2a, local: serverRemote, remote: serverLocal}
	return
}

type half struct {
	mu     sync.Mutex
	buf    []byte
	wake   chan struct{}
	closed bool // writer closed: EOF after buffer drains
	total  int
	window int  // > 0: a Write blocks while this many bytes are unread (the peer's receive window)
	gone   bool // the reading end was closed (only consulted while a window is set)
}

func newHalf() *half { return &half{wake: make(chan struct{})} }

func (h *half) poke() {
	close(h.wake)
	h.wake = make(chan struct{})
}

type End struct {
	r, w    *half
	local   net.Addr
	remote  net.Addr
	mu      sync.Mutex
	rdl     time.Time
	closedL bool
	// MaxRead, when > 0, caps the bytes returned by one Read on this end.
	MaxRead int
}

func (e *End) Read(p []byte) (int, error) {
	for {
		e.mu.Lock()
		closed, dl := e.closedL, e.rdl
		e.mu.Unlock()
		if closed {
			return 0, ErrClosed
		}
		e.r.mu.Lock()
		if len(e.r.buf) > 0 {
			if len(p) == 0 {
				e.r.mu.Unlock()
				return 0, nil
			}
			n := len(p)
			if e.MaxRead > 0 && n > e.MaxRead {
				n = e.MaxRead
			}
			n = copy(p[:n], e.r.buf)
			e.r.buf = e.r.buf[n:]
			if e.r.window > 0 {
				e.r.poke() // a writer may be waiting for room
			}
			e.r.mu.Unlock()
			return n, nil
		}
		if e.r.closed {
			e.r.mu.Unlock()
			return 0, io.EOF
		}
		wake := e.r.wake
		e.r.mu.Unlock()
		if dl.IsZero() {
			<-wake
			continue
		}
		d := time.Until(dl)
		if d <= 0 {
			return 0, timeoutErr{}
		}
		t := time.NewTimer(d)
		select {
		case <-wake:
			t.Stop()
		case <-t.C:
		}
	}
}

func (e *End) Write(p []byte) (int, error) {
	e.mu.Lock()
	closed := e.closedL
	e.mu.Unlock()
	if closed {
		return 0, ErrClosed
	}
	for {
		e.w.mu.Lock()
		if e.w.closed {
			e.w.mu.Unlock()
			return 0, ErrClosed
		}
		if e.w.window > 0 && e.w.gone {
			e.w.mu.Unlock()
			return 0, ErrClosed
		}
		if e.w.window > 0 && len(e.w.buf) >= e.w.window && len(p) > 0 {
			// the peer's window is full: block (durably, on a bubble channel) until it reads
			wake := e.w.wake
			e.w.mu.Unlock()
			<-wake
			e.mu.Lock()
			closed := e.closedL
			e.mu.Unlock()
			if closed {
				return 0, ErrClosed
			}
			continue
		}
		e.w.buf = append(e.w.buf, p...)
		e.w.total += len(p)
		e.w.poke()
		e.w.mu.Unlock()
		return len(p), nil
	}
}

// SetWindow limits how many unread bytes the PEER may have queued towards this end before its
// Writes block (0 = unlimited): a slow reader.
func (e *End) SetWindow(n int) {
	e.r.mu.Lock()
	e.r.window = n
	e.r.poke()
	e.r.mu.Unlock()
}

// Close closes both directions as seen from this end.
func (e *End) Close() error {
	e.mu.Lock()
	e.closedL = true
	e.mu.Unlock()
	e.w.mu.Lock()
	e.w.closed = true
	e.w.poke()
	e.w.mu.Unlock()
	e.r.mu.Lock()
	e.r.gone = true
	e.r.poke()
	e.r.mu.Unlock()
	return nil
}

// Closed reports whether this end was closed locally.
func (e *End) Closed() bool {
	e.mu.Lock()
	defer e.mu.Unlock()
	return e.closedL
}

// PeerClosed reports whether the other end closed its write side.
func (e *End) PeerClosed() bool {
	e.r.mu.Lock()
	defer e.r.mu.Unlock()
	return e.r.closed
}

func (e *End) LocalAddr() net.Addr  { return e.local }
func (e *End) RemoteAddr() net.Addr { return e.remote }

func (e *End) SetDeadline(t time.Time) error { return e.SetReadDeadline(t) }
func (e *End) SetReadDeadline(t time.Time) error {
	e.mu.Lock()
	e.rdl = t
	e.mu.Unlock()
	e.r.mu.Lock()
	e.r.poke()
	e.r.mu.Unlock()
	return nil
}
func (e *End) SetWriteDeadline(t time.Time) error { return nil }

// Package core is the worker-side runtime shared by all property drivers:
// case numbering and sharding, BEGIN/END crash attribution markers, violation
// records, coverage counters, distinct-outcome hashing and samples.
//
// Protocol with the orchestrator (/verif/vf): the worker appends JSON lines to
// the file named by VF_OUT.
//
//	{"t":"B","n":<case number>,"name":"..."}   before a case runs
//	{"t":"E","n":<case number>}                 after it returned
//	{"t":"V","n":..,"sig":"..","detail":".."}   a violation inside the case
//	{"t":"S", ...summary...}                    once, at the very end
//
// A case that has a B line but no E line when the process is gone is the
// execution that killed the worker.
package core

import (
	"bufio"
	"encoding/json"
	"fmt"
	"hash/fnv"
	"os"
	"runtime"
	"sort"
	"strconv"
	"strings"
	"sync/atomic"
	"syscall"
	"time"
)

type Ctx struct {
	Prop    string
	Tier    string // quick | thorough
	Seed    int64
	Shard   int
	NShards int
	Start   int // skip cases numbered below Start
	Only    int // if >=0 run only this case number
	Part    string

	out      *bufio.Writer
	outf     *os.File
	n        int // case counter (all cases, run or not)
	ran      int
	cur      int
	curName  string
	counts   map[string]int64
	outcomes map[uint64]struct{}
	classes  map[string]int64
	vsigs    map[string]int64
	samples  []interface{}
	viol     int
	notes    []string
	capped   bool
	maxCases int
	trace    bool
	list     bool
	next     int // first own case not run because the worker is being recycled
	recycle  bool
	deadline time.Time
}

// heapRecycleLimit: live heap (bytes) above which a worker hands the rest of its shard to a fresh process.
var heapRecycleLimit = uint64(envInt("VF_HEAP_RECYCLE_MB", 1024)) << 20

func envInt(k string, d int) int {
	if v := os.Getenv(k); v != "" {
		n, err := strconv.Atoi(v)
		if err == nil {
			return n
		}
	}
	return d
}

// FromEnv builds the context from the VF_* environment.
func FromEnv() *Ctx {
	c := &Ctx{
		Prop:     os.Getenv("VF_PROP"),
		Tier:     os.Getenv("VF_TIER"),
		Seed:     int64(envInt("VF_SEED", 0)),
		Shard:    envInt("VF_SHARD", 0),
		NShards:  envInt("VF_NSHARDS", 1),
		Start:    envInt("VF_START", 0),
		Only:     envInt("VF_ONLY", -1),
		Part:     os.Getenv("VF_PROP"),
		counts:   map[string]int64{},
		outcomes: map[uint64]struct{}{},
		classes:  map[string]int64{},
		vsigs:    map[string]int64{},
		next:     -1,
		maxCases: envInt("VF_MAXCASES", 0),
		trace:    os.Getenv("VF_TRACE") != "",
		list:     os.Getenv("VF_LIST") != "",
	}
	if c.Tier == "" {
		c.Tier = "quick"
	}
	if s := envInt("VF_DEADLINE_S", 0); s > 0 {
		c.deadline = time.Now().Add(time.Duration(s) * time.Second)
	}
	if p := os.Getenv("VF_OUT"); p != "" {
		f, err := os.OpenFile(p, os.O_WRONLY|os.O_CREATE|os.O_APPEND, 0644)
		if err != nil {
			panic(err)
		}
		c.outf = f
		c.out = bufio.NewWriterSize(f, 1<<16)
	} else {
		c.outf = os.Stderr
		c.out = bufio.NewWriter(os.Stderr)
	}
	return c
}

func (c *Ctx) Thorough() bool { return c.Tier == "thorough" }

// Stopping reports that remaining cases will be skipped (deadline reached or
// the worker is being recycled); drivers may use it to leave loops early.
func (c *Ctx) Stopping() bool {
	return c.Expired() || c.recycle || (c.maxCases > 0 && c.ran >= c.maxCases)
}

// RequestRecycle asks for this worker process to be replaced: the current case is left (the driver
// has saved how far it got) and the orchestrator starts a new worker at this same case.
func (c *Ctx) RequestRecycle() {
	c.recycle = true
	if c.next < 0 {
		c.next = c.cur
	}
}

// Recycling reports whether RequestRecycle was called.
func (c *Ctx) Recycling() bool { return c.recycle }

// CaseName is the name of the case being run.
func (c *Ctx) CaseName() string { return c.curName }

// HeapBytes is the live heap as the runtime reports it.
func HeapBytes() uint64 { return heapBytes() }

func (c *Ctx) emit(m map[string]interface{}) {
	b, _ := json.Marshal(m)
	c.out.Write(b)
	c.out.WriteByte('\n')
}

// realNow is the wall clock even inside a synctest bubble (where time.Now is
// fake): the deadline is armed from outside the bubble via SetDeadlineFlag.
var deadlineHit atomic.Int32

// DeadlineFlag is set (from a goroutine outside the bubble) when the internal
// time budget is exhausted; drivers stop enumerating cleanly.
func (c *Ctx) ArmDeadline() {
	if c.deadline.IsZero() {
		return
	}
	d := time.Until(c.deadline)
	go func() {
		time.Sleep(d)
		deadlineHit.Store(1)
	}()
}

// Expired reports whether the internal deadline passed; the run is then
// reported with exhaustive:false.
func (c *Ctx) Expired() bool {
	if deadlineHit.Load() != 0 {
		c.capped = true
		return true
	}
	return false
}

// Mine reports whether case number n belongs to this worker.
func (c *Ctx) mine(n int) bool {
	if c.Only >= 0 {
		return n == c.Only
	}
	if n < c.Start {
		return false
	}
	return n%c.NShards == c.Shard
}

// Case runs fn as one crash-attributable execution if it belongs to this
// shard. It returns false when the case was skipped.
func (c *Ctx) Case(name string, fn func()) bool {
	n := c.n
	c.n++
	if c.list {
		c.emit(map[string]interface{}{"t": "L", "n": n, "name": name})
		return false
	}
	if !c.mine(n) {
		return false
	}
	if c.Expired() {
		return false
	}
	if c.recycle {
		return false
	}
	if c.maxCases > 0 && c.ran >= c.maxCases {
		if c.next < 0 {
			c.next = n
		}
		return false
	}
	// dead instances of earlier cases leave parked goroutines and their buffers behind: when the live
	// heap has grown past the limit the rest of this shard is continued by a fresh worker process
	if c.ran > 0 && c.Only < 0 && heapBytes() > heapRecycleLimit {
		runtime.GC()
		if heapBytes() > heapRecycleLimit {
			c.recycle = true
			if c.next < 0 {
				c.next = n
			}
			c.counts["heap_recycles"]++
			return false
		}
	}
	c.cur, c.curName = n, name
	CurrentCase.Store(name)
	c.emit(map[string]interface{}{"t": "B", "n": n, "name": name})
	c.out.Flush()
	Tick()
	fn()
	Tick()
	c.emit(map[string]interface{}{"t": "E", "n": n})
	if c.recycle {
		c.out.Flush()
		return true // continued by the next worker: not counted as run here
	}
	c.ran++
	if c.ran%64 == 0 {
		c.out.Flush()
	}
	return true
}

// Skip advances the case counter without running anything (keeps numbering
// stable across shards when a driver prunes).
func (c *Ctx) Skip(k int) { c.n += k }

// Violation records a property violation inside the current case. sig is the
// stable signature used for known-finding matching; detail is free text.
func (c *Ctx) Violation(sig, detail string) {
	c.viol++
	c.vsigs[sig]++
	if c.vsigs[sig] > 5 { // the first few per signature carry the detail; the rest are only counted
		return
	}
	if len(detail) > 4000 {
		detail = detail[:4000] + "…"
	}
	c.emit(map[string]interface{}{"t": "V", "n": c.cur, "name": c.curName, "sig": sig, "detail": detail, "part": c.Part})
	c.out.Flush()
	if stop := os.Getenv("VF_STOP_ON_SIG"); stop != "" && stop == sig {
		// a confirmation replay: the violation reappeared, nothing more is needed
		c.Finish()
		syscall.Exit(0)
	}
}

func (c *Ctx) Violationf(sig, format string, a ...interface{}) {
	c.Violation(sig, fmt.Sprintf(format, a...))
}

// Mark names the scenario about to run inside the current case. With
// VF_TRACE=1 (set by the orchestrator when it replays a case that killed a
// worker) the mark is written and flushed, so the scenario that was running
// when the process died can be named.
func (c *Ctx) Mark(class, desc string) {
	if !c.trace {
		return
	}
	if len(desc) > 600 {
		desc = desc[:600] + "…"
	}
	c.emit(map[string]interface{}{"t": "M", "n": c.cur, "class": class, "d": desc})
	c.out.Flush()
}

// Count adds to a named coverage counter.
func (c *Ctx) Count(k string, d int64) { c.counts[k] += d }

// Class counts how many executions fell in a named outcome class (to expose
// vacuous exploration: many executions, one class).
func (c *Ctx) Class(k string) { c.classes[k]++ }

// Outcome registers the canonical observation of one execution; the number of
// distinct outcomes is reported in the evidence.
func (c *Ctx) Outcome(parts ...string) {
	h := fnv.New64a()
	for _, p := range parts {
		h.Write([]byte(p))
		h.Write([]byte{0})
	}
	if len(c.outcomes) < 400000 {
		c.outcomes[h.Sum64()] = struct{}{}
	}
}

// Sample keeps up to 6 written-out cases per worker.
func (c *Ctx) Sample(v interface{}) {
	if len(c.samples) < 6 {
		c.samples = append(c.samples, v)
	}
}

func (c *Ctx) WantSample() bool { return len(c.samples) < 6 }

func (c *Ctx) Note(s string) { c.notes = append(c.notes, s) }

// NotExhaustive marks the run as capped (reported as exhaustive:false).
func (c *Ctx) NotExhaustive(why string) {
	c.capped = true
	c.Note("capped: " + why)
}

// Finish writes the summary record and flushes. The caller then exits.
func (c *Ctx) Finish() {
	hs := make([]string, 0, len(c.outcomes))
	for h := range c.outcomes {
		hs = append(hs, strconv.FormatUint(h, 36))
	}
	sort.Strings(hs)
	c.emit(map[string]interface{}{
		"t": "S", "shard": c.Shard, "part": c.Part, "cases_total": c.n, "cases_run": c.ran,
		"counts": c.counts, "classes": c.classes, "outcomes": strings.Join(hs, ","),
		"samples": c.samples, "violations": c.viol, "vsigs": c.vsigs, "notes": c.notes, "capped": c.capped, "next": c.next,
	})
	c.out.Flush()
	if c.outf != os.Stderr {
		c.outf.Sync()
	}
}

// Flush pushes buffered records to disk (used before risky steps).
func (c *Ctx) Flush() { c.out.Flush() }

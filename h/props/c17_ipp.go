package props

import (
	"bufio"
	"bytes"
	"encoding/binary"
	"fmt"
	"io"
	"net/http"
	"strings"

	"verif/h/core"
	"verif/h/lab"
)

// ---- independent IPP encoder (RFC 8010 wire format) -------------------------

type ippAttr struct {
	tag  byte
	name string
	vals [][]byte // raw value encodings
}

type ippGroup struct {
	tag   byte
	attrs []ippAttr
}

type ippReq struct {
	major, minor byte
	op           int16
	reqID        int32
	groups       []ippGroup
	doc          []byte
	desc         string
}

func (r *ippReq) encode() []byte {
	var b bytes.Buffer
	b.WriteByte(r.major)
	b.WriteByte(r.minor)
	binary.Write(&b, binary.BigEndian, r.op)
	binary.Write(&b, binary.BigEndian, r.reqID)
	for _, g := range r.groups {
		b.WriteByte(g.tag)
		for _, a := range g.attrs {
			for i, v := range a.vals {
				b.WriteByte(a.tag)
				if i == 0 {
					binary.Write(&b, binary.BigEndian, uint16(len(a.name)))
					b.WriteString(a.name)
				} else {
					binary.Write(&b, binary.BigEndian, uint16(0))
				}
				binary.Write(&b, binary.BigEndian, uint16(len(v)))
				b.Write(v)
			}
		}
	}
	b.WriteByte(0x03)
	b.Write(r.doc)
	return b.Bytes()
}

func i32(v int32) []byte { b := make([]byte, 4); binary.BigEndian.PutUint32(b, uint32(v)); return b }

// reference parser for replies: header + groups of (tag,name,value) triples
type ippParsed struct {
	major, minor byte
	status       int16
	reqID        int32
	attrs        []string // "g<grouptag>:<tag>:<name>=<hexvalue>"
	ok           bool
}

func parseIPP(b []byte) (p ippParsed) {
	if len(b) < 9 {
		return
	}
	p.major, p.minor = b[0], b[1]
	p.status = int16(binary.BigEndian.Uint16(b[2:]))
	p.reqID = int32(binary.BigEndian.Uint32(b[4:]))
	i := 8
	var gt byte
	lastName := ""
	for i < len(b) {
		t := b[i]
		i++
		if t == 0x03 {
			p.ok = true
			return
		}
		if t <= 0x0f {
			gt = t
			continue
		}
		if i+2 > len(b) {
			return
		}
		nl := int(binary.BigEndian.Uint16(b[i:]))
		i += 2
		if i+nl > len(b) {
			return
		}
		name := string(b[i : i+nl])
		i += nl
		if nl == 0 {
			name = lastName
		}
		lastName = name
		if i+2 > len(b) {
			return
		}
		vl := int(binary.BigEndian.Uint16(b[i:]))
		i += 2
		if i+vl > len(b) {
			return
		}
		p.attrs = append(p.attrs, fmt.Sprintf("g%d:%02x:%s=%x", gt, t, name, b[i:i+vl]))
		i += vl
	}
	return
}

// ---- generator ---------------------------------------------------------------

type ippExtra struct {
	label string
	attr  ippAttr
}

func strAttr(tag byte, name string, vals ...string) ippAttr {
	a := ippAttr{tag: tag, name: name}
	for _, v := range vals {
		a.vals = append(a.vals, []byte(v))
	}
	return a
}

func ippExtras(thorough bool) []ippExtra {
	s300 := strings.Repeat("x", 300)
	s255 := strings.Repeat("y", 255)
	ex := []ippExtra{
		{"int1", ippAttr{0x21, "copies", [][]byte{i32(1)}}},
		{"int2", ippAttr{0x21, "copies", [][]byte{i32(2), i32(-1)}}},
		{"int3", ippAttr{0x21, "n", [][]byte{i32(0x21000000), i32(3), i32(0x7fffffff)}}},
		{"boolT", ippAttr{0x22, "my-jobs", [][]byte{{1}}}},
		{"boolF", ippAttr{0x22, "my-jobs", [][]byte{{0}}}},
		{"bool2", ippAttr{0x22, "b", [][]byte{{1}, {0}}}},
		{"enum", ippAttr{0x23, "orientation-requested", [][]byte{i32(3)}}},
		{"enum2", ippAttr{0x23, "finishings", [][]byte{i32(4), i32(5)}}},
		{"range", ippAttr{0x33, "copies-supported", [][]byte{append(i32(1), i32(99)...)}}},
		{"range3", ippAttr{0x33, "r", [][]byte{append(i32(0x33000000), i32(3)...)}}},
		{"keyword", strAttr(0x44, "requested-attributes", "all")},
		{"keyword3", strAttr(0x44, "requested-attributes", "a", "", "printer-name")},
		{"uri", strAttr(0x45, "u", "ipp://h/"+s255)},
		{"mime", strAttr(0x49, "document-format-x", "application/pdf")},
		{"text0", strAttr(0x41, "t", "")},
		{"text300", strAttr(0x41, "t", s300)},
		{"name2", strAttr(0x42, "nm", "a", s255)},
		{"lang", strAttr(0x48, "l", "nl")},
		{"charset", strAttr(0x47, "c", "us-ascii")},
	}
	return ex
}

// charset and natural language of the requests being built (the reply must echo them)
var ippCS, ippNL = "utf-8", "en-us"

func ippBase(op int16, ver [2]byte, reqID int32, doc []byte, pre, mid, post []ippAttr, second []ippAttr, third []ippAttr) *ippReq {
	g := ippGroup{tag: 1}
	g.attrs = append(g.attrs, strAttr(0x47, "attributes-charset", ippCS), strAttr(0x48, "attributes-natural-language", ippNL))
	g.attrs = append(g.attrs, pre...)
	g.attrs = append(g.attrs, strAttr(0x45, "printer-uri", "ipp://10.0.0.1/printers/p1"))
	g.attrs = append(g.attrs, mid...)
	g.attrs = append(g.attrs, strAttr(0x42, "requesting-user-name", "mallory"), strAttr(0x42, "job-name", "job 7"), strAttr(0x49, "document-format", "application/octet-stream"))
	g.attrs = append(g.attrs, post...)
	r := &ippReq{major: ver[0], minor: ver[1], op: op, reqID: reqID, doc: doc}
	r.groups = append(r.groups, g)
	if second != nil {
		r.groups = append(r.groups, ippGroup{tag: 2, attrs: second})
	}
	if third != nil {
		r.groups = append(r.groups, ippGroup{tag: 4, attrs: third})
	}
	return r
}

const ippCfg = `
[service.ipp]
type="ipp"

[[port]]
port="tcp/631"
services=["ipp"]

[channel.cap]
type="verif-capture"
id="cap"

[[filter]]
channel=["cap"]
`

// ippExchange sends one request through the real server path and returns the
// parsed HTTP reply body and the ipp event (nil if none).
func ippExchange(s *lab.Server, body []byte, chunked bool) (status int, reply []byte, ev lab.EventMap, closed bool) {
	lab.ResetEvents()
	conn := s.DialTCP("10.0.0.1", 631, "10.9.9.9", 40001)
	var req bytes.Buffer
	req.WriteString("POST /printers/p1 HTTP/1.1\r\nHost: 10.0.0.1:631\r\nContent-Type: application/ipp\r\n")
	if chunked {
		req.WriteString("Transfer-Encoding: chunked\r\n\r\n")
		fmt.Fprintf(&req, "%x\r\n", len(body))
		req.Write(body)
		req.WriteString("\r\n0\r\n\r\n")
	} else {
		fmt.Fprintf(&req, "Content-Length: %d\r\n\r\n", len(body))
		req.Write(body)
	}
	conn.Send(req.Bytes())
	lab.Quiesce()
	out := conn.Output()
	closed = conn.Closed()
	if !closed {
		conn.CloseWrite()
		lab.Quiesce()
		out = conn.Output()
	}
	resp, err := http.ReadResponse(bufio.NewReader(bytes.NewReader(out)), nil)
	if err == nil {
		status = resp.StatusCode
		reply, _ = io.ReadAll(resp.Body)
	}
	for _, e := range lab.Events("cap") {
		if lab.Str(e, "category") == "ipp" {
			ev = e
		}
	}
	return
}

func c17IPP(c *core.Ctx) {
	var srv *lab.Server
	getSrv := func() *lab.Server {
		if srv == nil {
			s, err := lab.Start(ippCfg)
			if err != nil {
				panic(err)
			}
			lab.Quiesce()
			if err := s.Attach(); err != nil {
				panic(err)
			}
			srv = s
		}
		return srv
	}
	ops := []struct {
		name string
		id   int16
	}{{"print-job", 2}, {"validate-job", 4}, {"get-job-attributes", 9}, {"get-printer-attributes", 0xb}, {"cups-get-devices", 0x400b}}
	docs := map[string][]byte{"doc0": {}, "doc1": {0x41}, "doc1k": bytes.Repeat([]byte{0xa5, 0x00, 0x03, 0x44}, 256), "doc-00-00": {0, 0, 1, 2}, "doc-03": {3, 3, 3}, "doc-44": {0x44, 0, 1, 'x'}}
	docOrder := []string{"doc0", "doc1", "doc1k", "doc-00-00", "doc-03", "doc-44"}
	if c.Thorough() {
		docs["doc64k"] = bytes.Repeat([]byte("%PDF-1.4 \x00\x03\x01\xff"), 5100)[:65536]
		docOrder = append(docOrder, "doc64k")
	}
	extras := ippExtras(c.Thorough())

	run := func(name string, r *ippReq, chunked bool) {
		c.Case("ipp/"+name, func() {
			s := getSrv()
			body := r.encode()
			status, reply, ev, _ := ippExchange(s, body, chunked)
			c.Count("executions", 1)
			c.Count("transitions", 1)
			sig := "C17:ipp:" + r.desc
			if status != 200 {
				c.Violationf(sig+":no-reply", "%s: no HTTP 200 reply (status %d) for a well-formed request (%d bytes: %x…)", name, status, len(body), body[:min(len(body), 48)])
				return
			}
			p := parseIPP(reply)
			if !p.ok {
				c.Violationf(sig+":reply-malformed", "%s: reply body is not a well-formed IPP message: %x", name, reply[:min(len(reply), 64)])
				return
			}
			if p.major != r.major || p.minor != r.minor || p.reqID != r.reqID {
				c.Violationf(sig+":reply-header", "%s: reply version %d.%d id %d, sent %d.%d id %d", name, p.major, p.minor, p.reqID, r.major, r.minor, r.reqID)
			}
			wantCS := fmt.Sprintf("g1:47:attributes-charset=%x", ippCS)
			wantNL := fmt.Sprintf("g1:48:attributes-natural-language=%x", ippNL)
			hasCS, hasNL := false, false
			for _, a := range p.attrs {
				if a == wantCS {
					hasCS = true
				}
				if a == wantNL {
					hasNL = true
				}
			}
			if !hasCS || !hasNL {
				c.Violationf(sig+":reply-echo", "%s: reply does not echo charset/language (attrs %v)", name, p.attrs[:min(len(p.attrs), 6)])
			}
			if ev == nil {
				c.Violationf(sig+":no-event", "%s: no ipp event recorded", name)
				return
			}
			if got := lab.Str(ev, "ipp.data"); got != string(r.doc) {
				c.Violationf(sig+":data", "%s: ipp.data has %d bytes (%x…), document sent has %d bytes (%x…)", name, len(got), got[:min(len(got), 16)], len(r.doc), r.doc[:min(len(r.doc), 16)])
			}
			if r.op == 2 {
				if lab.Str(ev, "ipp.uri") != "ipp://10.0.0.1/printers/p1" || lab.Str(ev, "ipp.user") != "mallory" || lab.Str(ev, "ipp.job-name") != "job 7" {
					c.Violationf(sig+":job-fields", "%s: event uri=%q user=%q job-name=%q, sent uri=%q user=%q job-name=%q", name,
						lab.Str(ev, "ipp.uri"), lab.Str(ev, "ipp.user"), lab.Str(ev, "ipp.job-name"), "ipp://10.0.0.1/printers/p1", "mallory", "job 7")
				}
			}
			c.Outcome("ipp", r.desc, fmt.Sprint(len(p.attrs)), lab.Str(ev, "ipp.user"))
			if c.WantSample() && r.desc != "plain" {
				c.Sample(map[string]interface{}{"part": "ipp", "case": name, "request_hex_prefix": fmt.Sprintf("%x", body[:min(len(body), 64)]), "reply_attrs": len(p.attrs)})
			}
		})
	}

	vers := [][2]byte{{1, 1}, {2, 0}}
	ids := []int32{1, 0x7fffffff, -2147483648}
	// 1. plain requests: op x version x id x document
	for _, op := range ops {
		for _, v := range vers {
			for _, id := range ids {
				for _, dn := range docOrder {
					r := ippBase(op.id, v, id, docs[dn], nil, nil, nil, nil, nil)
					r.desc = "plain"
					run(fmt.Sprintf("plain/%s/v%d.%d/id%d/%s", op.name, v[0], v[1], id, dn), r, false)
				}
			}
		}
	}
	// 1b. charset and natural-language values of boundary lengths (the reply echoes them)
	for _, op := range ops {
		for _, l := range [][2]int{{1, 5}, {63, 5}, {64, 5}, {255, 5}, {300, 5}, {5, 63}, {5, 64}, {5, 300}, {64, 64}} {
			ippCS, ippNL = strings.Repeat("c", l[0]), strings.Repeat("n", l[1])
			r := ippBase(op.id, vers[0], 7, docs["doc1"], nil, nil, nil, nil, nil)
			r.desc = "charset-lengths"
			run(fmt.Sprintf("charset/%s/cs%d/nl%d", op.name, l[0], l[1]), r, false)
			ippCS, ippNL = "utf-8", "en-us"
		}
	}
	// 2. one extra attribute of every supported tag at every position, every op
	positions := []string{"pre", "mid", "post", "job", "printer"}
	for _, op := range ops {
		for _, ex := range extras {
			for _, pos := range positions {
				for _, dn := range []string{"doc0", "doc-44"} {
					var pre, mid, post, second, third []ippAttr
					one := []ippAttr{ex.attr}
					switch pos {
					case "pre":
						pre = one
					case "mid":
						mid = one
					case "post":
						post = one
					case "job":
						second = one
					case "printer":
						second = []ippAttr{}
						third = one
					}
					r := ippBase(op.id, vers[0], 7, docs[dn], pre, mid, post, second, third)
					r.desc = "attr-" + fmt.Sprintf("%02x", ex.attr.tag)
					run(fmt.Sprintf("one/%s/%s/%s/%s", op.name, ex.label, pos, dn), r, dn == "doc-44")
				}
			}
		}
	}
	// 3. ordered pairs of extra attributes (same group / split over groups), print-job and get-printer
	for _, op := range []int{0, 3} {
		for i, a := range extras {
			for j, b := range extras {
				if !c.Thorough() && (i+j)%3 != 0 && a.attr.tag == b.attr.tag {
					continue
				}
				for _, where := range []string{"post", "job", "split"} {
					var post, second []ippAttr
					switch where {
					case "post":
						post = []ippAttr{a.attr, b.attr}
					case "job":
						second = []ippAttr{a.attr, b.attr}
					case "split":
						post = []ippAttr{a.attr}
						second = []ippAttr{b.attr}
					}
					r := ippBase(ops[op].id, vers[1], 99, docs["doc1"], nil, nil, post, second, nil)
					r.desc = fmt.Sprintf("attrs-%02x-%02x", a.attr.tag, b.attr.tag)
					run(fmt.Sprintf("pair/%s/%s+%s/%s", ops[op].name, a.label, b.label, where), r, false)
				}
			}
		}
	}
}

package props

import (
	"bytes"
	"fmt"
	"strings"

	"verif/h/core"
	"verif/h/lab"
)

// C08 — a connection goes to the first configured service that accepts it,
// and that service reads the client's stream intact from byte 0.
//
// Port tables x service lists x first payloads x first-segment sizes are
// enumerated through the real server.New+Run; the oracle is a reference
// findService (the statement's rule) plus "bytes read by the chosen stub ==
// bytes the client sent".

func init() { register("C08", driver{run: runC08, needsStorage: true}) }

const c08Services = `
[service.p1]
type="verif-plain"
name="p1"

[service.p2]
type="verif-plain"
name="p2"

[service.dA]
type="verif-det"
name="dA"
accept="A"

[service.dB]
type="verif-det"
name="dB"
accept="B"

[service.dA2]
type="verif-det"
name="dA2"
accept="A"
`

var c08Det = map[string]byte{"dA": 'A', "dB": 'B', "dA2": 'A'}

// refFind is the statement's selection rule. It returns "" when no service may
// see the connection, and judged=false when the statement does not decide
// (a client that sends nothing to a list whose decision needs a detector).
func refFind(list []string, first []byte) (svc string, judged bool) {
	if len(list) == 0 {
		return "", true
	}
	if len(list) == 1 {
		return list[0], true
	}
	for _, s := range list {
		acc, isDet := c08Det[s]
		if !isDet {
			return s, true
		}
		if len(first) == 0 {
			return "", false
		}
		if first[0] == acc {
			return s, true
		}
	}
	return "", true
}

type c08Port struct {
	spec string // port string
	list []string
}

type c08Probe struct {
	proto string
	lip   string
	port  int
}

func c08Toml(ports []c08Port) string {
	var b strings.Builder
	b.WriteString(c08Services)
	for _, p := range ports {
		fmt.Fprintf(&b, "[[port]]\nport=%q\nservices=[", p.spec)
		for i, s := range p.list {
			if i > 0 {
				b.WriteString(",")
			}
			fmt.Fprintf(&b, "%q", s)
		}
		b.WriteString("]\n\n")
	}
	return b.String()
}

// c08Segments cuts stream into a first segment of size first (0 = all) and the
// rest in nrest pieces.
func c08Segments(stream []byte, first int, nrest int) [][]byte {
	if first <= 0 || first >= len(stream) {
		return [][]byte{stream}
	}
	segs := [][]byte{stream[:first]}
	rest := stream[first:]
	if nrest <= 1 || len(rest) < 2 {
		return append(segs, rest)
	}
	h := len(rest) / 2
	return append(segs, rest[:h], rest[h:])
}

func runC08(c *core.Ctx) {
	// service lists of length 0..4 over the five stubs (no repetition of the same instance is required; repeats allowed up to length 2)
	stubs := []string{"p1", "p2", "dA", "dB", "dA2"}
	var lists [][]string
	var rec func(prefix []string, maxLen int)
	rec = func(prefix []string, maxLen int) {
		lists = append(lists, append([]string(nil), prefix...))
		if len(prefix) == maxLen {
			return
		}
		for _, s := range stubs {
			dup := false
			for _, p := range prefix {
				if p == s {
					dup = true
				}
			}
			if dup {
				continue
			}
			rec(append(prefix, s), maxLen)
		}
	}
	maxLen := 3
	if c.Thorough() {
		maxLen = 4
	}
	rec(nil, maxLen)
	lists = append(lists, []string{"dA", "dA"}, []string{"p1", "p1"}, []string{"dB", "dA", "dB", "p1"}, []string{"dB", "dA2", "dA", "p2"})

	payloads := map[string][]byte{
		"empty":  {},
		"A":      append([]byte("A"), bytes.Repeat([]byte("0123456789abcdef"), 64)...), // 1025 bytes
		"B":      append([]byte("B"), bytes.Repeat([]byte("fedcba9876543210"), 64)...),
		"C":      append([]byte("C"), bytes.Repeat([]byte{0x00, 0xff, 0x0a, 0x0d}, 256)...),
		"Ashort": []byte("A"),
		"B2":     []byte("BA"),
	}
	payOrder := []string{"empty", "A", "B", "C", "Ashort", "B2"}
	firsts := []int{1, 2, 1023, 1024, 0}
	if c.Thorough() {
		firsts = []int{1, 2, 3, 512, 1023, 1024, 1025, 0}
	}

	// one execution: a port table, one probe
	readSize := 0
	exec := func(name string, table []c08Port, pr c08Probe, wantList []string, payName string, first, nrest int) {
		lab.StubReadSize = readSize
		defer func() { lab.StubReadSize = 0 }()
		stream := payloads[payName]
		segs := c08Segments(stream, first, nrest)
		lab.ResetStubs()
		s, err := lab.Start(c08Toml(table))
		c.Count("executions", 1)
		if err != nil {
			c.Violationf("C08:start", "%s: %v", name, err)
			return
		}
		lab.Quiesce()
		defer s.Stop()
		if err := s.Attach(); err != nil {
			c.Violationf("C08:start", "%s: %v", name, err)
			return
		}
		var closed func() bool
		if pr.proto == "tcp" {
			conn := s.DialTCP(pr.lip, pr.port, "10.9.9.9", 41000)
			for _, sg := range segs {
				conn.Send(sg)
				lab.Quiesce()
				c.Count("transitions", 1)
			}
			conn.CloseWrite()
			lab.Quiesce()
			closed = conn.Closed
		} else {
			s.SendUDP(pr.lip, pr.port, "10.9.9.9", 41000, stream)
			lab.Quiesce()
			c.Count("transitions", 1)
			closed = func() bool { return true }
		}
		firstSeg := segs[0]
		if len(firstSeg) > 1024 {
			firstSeg = firstSeg[:1024]
		}
		if pr.proto == "udp" {
			firstSeg = stream
		}
		want, judged := refFind(wantList, firstSeg)
		vs := lab.Visits()
		if !judged {
			c.Count("not_judged", 1)
			return
		}
		desc := fmt.Sprintf("%s table=%v probe=%v payload=%s(%d bytes) first-segment=%d", name, table, pr, payName, len(stream), len(segs[0]))
		shape := c08Shape(wantList)
		if want == "" {
			if len(vs) != 0 {
				c.Violationf("C08:unexpected-service:"+shape, "%s: no service may see this connection, but %s did", desc, vs[0].Service)
			} else if !closed() {
				c.Violationf("C08:not-closed:"+shape, "%s: connection matching no service was not closed", desc)
			}
			c.Outcome("none", shape)
			return
		}
		if len(vs) != 1 {
			var names []string
			for _, v := range vs {
				names = append(names, v.Service)
			}
			c.Violationf("C08:selection:"+shape, "%s: handled by %v, expected exactly [%s]", desc, names, want)
			return
		}
		if vs[0].Service != want {
			c.Violationf("C08:selection:"+shape, "%s: handled by %s, expected %s", desc, vs[0].Service, want)
			return
		}
		if !bytes.Equal(vs[0].Data, stream) {
			c.Violationf("C08:stream:"+shape, "%s: %s read %d bytes (%q…), client sent %d bytes (%q…)", desc, want, len(vs[0].Data), trunc(string(vs[0].Data), 12), len(stream), trunc(string(stream), 12))
			return
		}
		c.Outcome(want, shape, payName, fmt.Sprint(len(segs)))
		if c.WantSample() && len(wantList) >= 3 && payName == "B" {
			c.Sample(map[string]interface{}{"port_table": fmt.Sprint(table), "probe": fmt.Sprint(pr), "payload": payName, "segments": len(segs), "chosen": want, "bytes_read": len(vs[0].Data)})
		}
	}

	// 1. single port, every service list x payload x segmentation, TCP
	for li, l := range lists {
		li, l := li, l
		c.Case(fmt.Sprintf("tcp/list%d", li), func() {
			for _, pn := range payOrder {
				for _, f := range firsts {
					for _, nrest := range []int{1, 2} {
						if len(payloads[pn]) < 4 && (f > 1 || nrest > 1) {
							continue
						}
						// the chosen service reads with buffers smaller and larger than the peeked segment
						for _, rs := range []int{0, 1, 7, 512} {
							if rs == 1 && len(payloads[pn]) > 8 && f != 2 {
								continue // 1-byte reads: short payloads and one long case
							}
							readSize = rs
							exec(fmt.Sprintf("tcp/list%d/read%d", li, rs), []c08Port{{"tcp/80", l}}, c08Probe{"tcp", "10.0.0.5", 80}, l, pn, f, nrest)
						}
						readSize = 0
					}
				}
			}
		})
	}
	// 2. UDP: datagram through the dispatcher
	for li, l := range lists {
		li, l := li, l
		c.Case(fmt.Sprintf("udp/list%d", li), func() {
			for _, pn := range []string{"A", "B", "C", "Ashort", "B2"} {
				for _, rs := range []int{0, 3, 512} {
					readSize = rs
					exec(fmt.Sprintf("udp/list%d/read%d", li, rs), []c08Port{{"udp/53", l}}, c08Probe{"udp", "10.0.0.5", 53}, l, pn, 0, 1)
				}
				readSize = 0
			}
		})
	}
	// 3. port tables of 2..3 ports: address matching decides the candidate list
	specs := []struct {
		spec  string
		proto string
		ip    string // "" wildcard
		port  int
	}{
		{"tcp/80", "tcp", "", 80}, {"tcp/127.0.0.1:80", "tcp", "127.0.0.1", 80}, {"tcp/10.0.0.1:80", "tcp", "10.0.0.1", 80}, {"tcp/0.0.0.0:80", "tcp", "", 80},
		{"udp/80", "udp", "", 80}, {"tcp/81", "tcp", "", 81}, {"udp/127.0.0.1:80", "udp", "127.0.0.1", 80},
	}
	tlists := [][]string{{"p1"}, {"dA", "p2"}, {"dB", "dA"}, {"dA"}, {"dB", "p1", "dA"}}
	probes := []c08Probe{{"tcp", "127.0.0.1", 80}, {"tcp", "10.0.0.1", 80}, {"tcp", "10.0.0.7", 80}, {"udp", "127.0.0.1", 80}, {"udp", "10.0.0.7", 80}, {"tcp", "10.0.0.7", 81}, {"tcp", "10.0.0.7", 82}}
	compatible := func(i, j int) bool {
		a, b := specs[i], specs[j]
		return a.proto == b.proto && a.port == b.port && (a.ip == "" || b.ip == "" || a.ip == b.ip)
	}
	matches := func(i int, p c08Probe) bool {
		a := specs[i]
		return a.proto == p.proto && a.port == p.port && (a.ip == "" || a.ip == p.lip)
	}
	tableCase := func(name string, idx []int, li []int) {
		// effective table: later compatible entries are ignored (first wins)
		var table []c08Port
		var eff []int
		for k, i := range idx {
			table = append(table, c08Port{specs[i].spec, tlists[li[k]]})
			dup := false
			for _, e := range eff {
				if compatible(idx[e], i) {
					dup = true
				}
			}
			if !dup {
				eff = append(eff, k)
			}
		}
		for _, pr := range probes {
			var want []string
			for _, k := range eff {
				if matches(idx[k], pr) {
					want = tlists[li[k]]
				}
			}
			for _, pn := range []string{"A", "B", "C"} {
				exec(name, table, pr, want, pn, 0, 1)
				if pr.proto == "tcp" {
					exec(name, table, pr, want, pn, 1, 2)
				}
			}
		}
	}
	for i := range specs {
		for j := range specs {
			i, j := i, j
			c.Case(fmt.Sprintf("table2/%d,%d", i, j), func() {
				for a := range tlists {
					for b := range tlists {
						if !c.Thorough() && (a+b)%2 == 1 {
							continue
						}
						tableCase(fmt.Sprintf("table2/%d,%d/%d,%d", i, j, a, b), []int{i, j}, []int{a, b})
					}
				}
			})
		}
	}
	for i := range specs {
		for j := range specs {
			for k := range specs {
				if !c.Thorough() && (i+j+k)%3 != 0 {
					continue
				}
				i, j, k := i, j, k
				c.Case(fmt.Sprintf("table3/%d,%d,%d", i, j, k), func() {
					tableCase(fmt.Sprintf("table3/%d,%d,%d", i, j, k), []int{i, j, k}, []int{1, 4, 0})
					tableCase(fmt.Sprintf("table3/%d,%d,%d'", i, j, k), []int{i, j, k}, []int{2, 0, 1})
				})
			}
		}
	}
}

// c08Shape abstracts a service list to its detector/plain pattern, e.g. "DP".
func c08Shape(l []string) string {
	var b strings.Builder
	for _, s := range l {
		if _, d := c08Det[s]; d {
			b.WriteByte('D')
		} else {
			b.WriteByte('P')
		}
	}
	if b.Len() == 0 {
		return "-"
	}
	return b.String()
}

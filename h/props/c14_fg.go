//go:build verifinst

package props

import (
	"fmt"
	"time"

	"github.com/honeytrap/honeytrap/verifsched"

	"verif/h/core"
	"verif/h/lab"
)

// C14/fg — the raw listener's receive path against the goroutine that serves an
// established connection, under the fine-grain explorer. The receive loop
// (here: one goroutine injecting the client's frames back to back through the
// real dispatch) writes the segment payloads into the connection's ring buffer
// and announces them; the connection's goroutine reads the ring buffer. The
// explorer decides at every access to the ring buffer, at every announcement
// and before every frame who runs next. Oracles: the event oracle of C14 (one
// event, payload a prefix of the stream containing the first pushed segment),
// and the race oracle (both goroutines enabled together before accesses to the
// same ring buffer, which keeps its fill level in plain integers).

func init() { register("C14/fg", driver{run: runC14FG}) }

func runC14FG(c *core.Ctx) {
	b := 2
	if c.Thorough() {
		b = 3
	}
	scens := []struct {
		name  string
		dport uint16
		n     int
		segs  []int
		psh   bool
		bound int
	}{
		{"undecoded port, one pushed segment", 8081, 6, []int{6}, false, b},
		{"undecoded port, two pushed segments", 8081, 6, []int{3, 3}, true, b},
		{"http port, request in two segments", 80, 70, []int{30, 40}, true, b},
		{"redis port, one segment", 6379, 8, []int{8}, false, b},
	}
	for _, sc := range scens {
		sc := sc
		fgExplore(c, &fgScenario{
			prop:  "C14",
			name:  sc.name,
			bound: sc.bound,
			run: func(x *fgExec) map[string]string {
				v := map[string]string{}
				cn := &c14Conn{ip: clientIP(5), sport: 5000, dport: sc.dport, isn: 1<<32 - 3, stream: c14Stream(sc.dport, sc.n), segs: sc.segs, pshAll: sc.psh}
				r := newC14Run(c, []*c14Conn{cn})
				id := cn.id()
				r.next(0) // SYN -> SYN-ACK, step-granular: the server's sequence number is needed for the rest
				srvNext := r.srvNext[id]
				var frames [][]byte
				frames = append(frames, cn.clientFrame("ack", 0, nil, srvNext, false))
				off := 0
				for k, n := range sc.segs {
					push := sc.psh || k == len(sc.segs)-1
					frames = append(frames, cn.clientFrame("data", off, cn.stream[off:off+n], srvNext, push))
					off += n
					if push && r.firstPSH[id] == 0 {
						r.firstPSH[id] = off
					}
				}
				verifsched.Activate()
				var panicked string
				go func() {
					verifsched.Enter("rx", "")
					for i, f := range frames {
						verifsched.Yield(fmt.Sprintf("rx:frame%d", i))
						if p, w := r.l.inject(f); p != "" {
							panicked = p + " at " + w
							return
						}
					}
				}()
				x.drive()
				verifsched.Deactivate()
				lab.Quiesce()
				r.l.c.VerifDrainTx()
				lab.Advance(61 * time.Second)
				r.l.c.VerifDrainTx()
				lab.Advance(6 * time.Second)
				r.checkEvents()
				r.l.close()
				if panicked != "" {
					v["C14:fg:panic"] = "the receive path panicked: " + panicked
				}
				for i, s := range r.sigs {
					k := "C14:fg:" + s[len("C14:"):]
					if _, ok := v[k]; !ok {
						v[k] = r.problems[i]
					}
				}
				return v
			},
		})
	}
}

package props

import (
	"fmt"
	"os"
	"regexp"
	"sort"
	"strings"

	"verif/h/core"
	"verif/h/lab"
	"verif/h/memconn"
)

// C03 — connections are isolated; events name the connection that caused them.
//
// Differential oracle: what a session observes (reply transcript) and what is
// recorded for it (events carrying its source address) in a run with other
// sessions — all interleavings at step granularity, and sequential histories
// of earlier sessions — must equal what the same script produces alone on a
// fresh service. Every session writes a tag into each argument; an event that
// carries a tag must carry the address of the session that owns the tag.

func init() { register("C03", driver{run: runC03, needsStorage: true}) }

type script struct {
	name  string
	steps func(tag string) [][]byte
}

type c03Service struct {
	svc     string
	udp     bool
	scripts []script
}

func tagOf(k int) string { return fmt.Sprintf("zq%dzq", k) }

var tagRe = regexp.MustCompile(`zq(\d)zq`)

func lines(ls ...string) [][]byte {
	var out [][]byte
	for _, l := range ls {
		out = append(out, []byte(l))
	}
	return out
}

func c03Services() []c03Service {
	return []c03Service{
		{svc: "ftp", scripts: []script{
			{"login-ok", func(t string) [][]byte {
				return lines("USER anonymous\r\n", "PASS anonymous\r\n", "PWD\r\n")
			}},
			{"login-bad", func(t string) [][]byte { return lines("USER "+t+"\r\n", "PASS "+t+"pw\r\n", "PWD\r\n") }},
			{"feat", func(t string) [][]byte { return lines("FEAT\r\n", "NOOP "+t+"\r\n", "QUIT\r\n") }},
			{"cwd", func(t string) [][]byte {
				return lines("USER anonymous\r\nPASS anonymous\r\n", "CWD /"+t+"\r\n", "PWD\r\n")
			}},
		}},
		{svc: "smtp", scripts: []script{
			{"mail", func(t string) [][]byte {
				return lines("EHLO "+t+".example\r\n", "MAIL FROM:<"+t+"@a>\r\nRCPT TO:<x@b>\r\n", "DATA\r\nSubject: "+t+"\r\n\r\nbody of "+t+"\r\n.\r\n")
			}},
			{"noop", func(t string) [][]byte { return lines("HELO "+t+"\r\n", "NOOP\r\n", "QUIT\r\n") }},
			{"rset", func(t string) [][]byte {
				return lines("EHLO "+t+"\r\n", "MAIL FROM:<"+t+"@r>\r\n", "RSET\r\n")
			}},
			{"bdat", func(t string) [][]byte {
				m := "Subject: b" + t + "\r\n\r\nchunk of " + t + "\r\n"
				return lines("EHLO "+t+"\r\n", "MAIL FROM:<"+t+"@c>\r\n", fmt.Sprintf("BDAT %d LAST\r\n%s", len(m), m))
			}},
			// a message that is begun and abandoned: a non-final chunk / an unterminated DATA body, then the client leaves
			{"bdat-abandoned", func(t string) [][]byte {
				m := "Subject: a" + t + "\r\n\r\nabandoned chunk of " + t + " "
				return lines("EHLO "+t+"\r\n", "MAIL FROM:<"+t+"@d>\r\nRCPT TO:<y@b>\r\n", fmt.Sprintf("BDAT %d\r\n%s", len(m), m))
			}},
			{"data-abandoned", func(t string) [][]byte {
				return lines("EHLO "+t+"\r\n", "MAIL FROM:<"+t+"@e>\r\nRCPT TO:<z@b>\r\n", "DATA\r\nSubject: u"+t+"\r\n\r\nunterminated body of "+t+"\r\n")
			}},
		}},
		{svc: "ldap", scripts: []script{
			{"bind-ok", func(t string) [][]byte {
				return [][]byte{ldapBind(1, "cn=root", "root"), ldapSearchEq(2, "dc="+t, "uid", t), ldapDelete(3, "cn="+t)}
			}},
			{"bind-bad", func(t string) [][]byte {
				return [][]byte{ldapBind(1, "cn="+t, "wrong"), ldapDelete(2, "cn="+t), ldapSearchPresent(3, "", "objectClass")}
			}},
			{"anon", func(t string) [][]byte {
				return [][]byte{ldapSearchPresent(1, "", "objectClass"), ldapCompare(2, "cn="+t, "sn", t), ldapUnbind(3)}
			}},
			{"add", func(t string) [][]byte {
				return [][]byte{ldapAdd(1, "cn="+t), ldapBind(2, "cn=root", "root"), ldapAdd(3, "cn="+t)}
			}},
		}},
		{svc: "telnet", scripts: []script{
			{"login", func(t string) [][]byte { return lines("user"+t+"\r\n", "pw"+t+"\r\n", "id "+t+"\r\n") }},
			{"cmds", func(t string) [][]byte { return lines("root\r\npw"+t+"\r\n", "ls "+t+"\n", "exit\r\n") }},
			{"partial", func(t string) [][]byte { return lines("adm", "in"+t+"\r\n", "secret") }},
		}},
		{svc: "redis", scripts: []script{
			{"set-get", func(t string) [][]byte {
				return lines(redisArray("SET", "k"+t, "v"+t), redisArray("GET", "k"+t), redisArray("INFO"))
			}},
			{"ping", func(t string) [][]byte {
				return lines(redisArray("PING"), redisArray("ECHO", t), redisArray("QUIT"))
			}},
			{"split", func(t string) [][]byte {
				a := redisArray("SET", "s"+t, "x")
				return lines(a[:7], a[7:], redisArray("KEYS", "*"))
			}},
		}},
		{svc: "memcached", scripts: []script{
			{"set-get", func(t string) [][]byte {
				return lines("set k"+t+" 0 0 5\r\nv"+t[:4]+"\r\n", "get k"+t+"\r\n", "stats\r\n")
			}},
			{"misc", func(t string) [][]byte { return lines("version\r\n", "delete "+t+"\r\n", "flush_all\r\n") }},
			{"split", func(t string) [][]byte { return lines("get ", "a"+t+"\r\nget b", t+"\r\n") }},
		}},
		{svc: "http", scripts: []script{
			{"get", func(t string) [][]byte {
				return lines(httpReq("GET", "/"+t, "h", []string{"X-Tag: " + t}, "", false), httpReq("GET", "/2"+t, "h", nil, "", false), httpReq("HEAD", "/3"+t, "h", nil, "", false))
			}},
			{"post", func(t string) [][]byte {
				r := httpReq("POST", "/p"+t, "h", nil, "body-"+t, false)
				return lines(r[:20], r[20:], httpReq("PUT", "/q"+t, "h", nil, t, true))
			}},
		}},
		{svc: "tftp", udp: true, scripts: []script{
			{"upload", func(t string) [][]byte {
				blk := strings.Repeat(t[:4], 128) // 512 bytes
				return lines("\x00\x02up"+t+"\x00octet\x00", "\x00\x03\x00\x01"+blk, "\x00\x03\x00\x02tail-"+t)
			}},
			{"read", func(t string) [][]byte {
				return lines("\x00\x01rd"+t+"\x00octet\x00", "\x00\x03\x00\x01stray-"+t, "\x00\x01again"+t+"\x00mail\x00")
			}},
			{"short-upload", func(t string) [][]byte {
				return lines("\x00\x02f"+t+"\x00octet\x00", "\x00\x03\x00\x01only-"+t, "\x00\x04\x00\x01")
			}},
		}},
	}
}

// observation of one session
type obs struct {
	transcript string
	events     []string
	sessionIDs map[string]bool
}

func (o obs) String() string {
	return fmt.Sprintf("transcript=%q events=%q", o.transcript, o.events)
}

// a running session
type c03Sess struct {
	k      int
	steps  [][]byte // client writes
	pos    int      // next step: 0=dial, 1..n sends, n+1 = close
	conn   *memconn.Conn
	udpOut []string
}

func (s *c03Sess) nsteps() int { return len(s.steps) + 2 }

func c03Step(srv *lab.Server, sv c03Service, s *c03Sess) {
	sp := svcSpecs[sv.svc]
	switch {
	case s.pos == 0:
		if !sv.udp {
			s.conn = dial(srv, sv.svc, s.k)
		}
	case s.pos <= len(s.steps):
		if sv.udp {
			ip, port := clientAddr(s.k)
			d := srv.SendUDP(serverIP, sp.port, ip, port, s.steps[s.pos-1])
			lab.Quiesce()
			for _, r := range d.Replies() {
				s.udpOut = append(s.udpOut, fmt.Sprintf("%s<%x>", r.To, r.Data))
			}
		} else {
			s.conn.Send(s.steps[s.pos-1])
		}
	default:
		if !sv.udp {
			s.conn.CloseWrite()
		}
	}
	s.pos++
	lab.Quiesce()
}

var volatileKeys = []string{"ftp.sessionid", "telnet.sessionid", "http.sessionid", "token", "sensor"}

func c03Observe(sv c03Service, sessions []*c03Sess) map[int]obs {
	out := map[int]obs{}
	for _, s := range sessions {
		o := obs{sessionIDs: map[string]bool{}}
		if sv.udp {
			o.transcript = strings.Join(s.udpOut, " ")
		} else if s.conn != nil {
			o.transcript = canonTranscript(sv.svc, s.conn.Output())
		}
		for _, e := range eventsOf(s.k) {
			for _, k := range []string{"ftp.sessionid", "telnet.sessionid", "http.sessionid"} {
				if v := lab.Str(e, k); v != "" {
					o.sessionIDs[v] = true
				}
			}
			o.events = append(o.events, lab.Canon(e, volatileKeys...))
		}
		out[s.k] = o
	}
	return out
}

// run executes the given order (sequence of session indices) on a fresh server.
func c03Run(c *core.Ctx, sv c03Service, sessions []*c03Sess, order []int) (map[int]obs, []lab.EventMap) {
	srv := startSvc(sv.svc)
	defer srv.Stop()
	c03Prepare(sv)
	for _, i := range order {
		c03Step(srv, sv, sessions[i])
		c.Count("transitions", 1)
	}
	lab.Quiesce()
	// let idle deadlines pass for sessions the server still holds
	need := false
	for _, s := range sessions {
		if s.conn != nil && !s.conn.Closed() {
			need = true
		}
	}
	if need {
		settle()
	}
	return c03Observe(sv, sessions), allEvents()
}

func mkSess(sv c03Service, scriptIdx, k int) *c03Sess {
	return &c03Sess{k: k, steps: sv.scripts[scriptIdx].steps(tagOf(k))}
}

// interleavings enumerates all merges of sequences with the given lengths.
func interleavings(lens []int, f func(order []int)) {
	total := 0
	for _, l := range lens {
		total += l
	}
	left := append([]int(nil), lens...)
	order := make([]int, 0, total)
	var rec func()
	rec = func() {
		if len(order) == total {
			f(order)
			return
		}
		for i := range left {
			if left[i] > 0 {
				left[i]--
				order = append(order, i)
				rec()
				order = order[:len(order)-1]
				left[i]++
			}
		}
	}
	rec()
}

func c03Check(c *core.Ctx, sv c03Service, what string, scriptsIdx []int, ks []int, got map[int]obs, all []lab.EventMap, solo func(si, k int) obs, orderDesc string) {
	for i, k := range ks {
		want := solo(scriptsIdx[i], k)
		g := got[k]
		scr := sv.scripts[scriptsIdx[i]].name
		if g.transcript != want.transcript {
			c.Violationf(fmt.Sprintf("C03:%s:%s:transcript:%s", sv.svc, what, scr), "%s %s scripts=%v order=%s: session %d (%s) received %q, alone it receives %q", sv.svc, what, names(sv, scriptsIdx), orderDesc, k, scr, trunc(g.transcript, 300), trunc(want.transcript, 300))
		}
		if strings.Join(g.events, "\n") != strings.Join(want.events, "\n") {
			c.Violationf(fmt.Sprintf("C03:%s:%s:events:%s", sv.svc, what, scr), "%s %s scripts=%v order=%s: events recorded for session %d (%s) differ from its solo run: %s", sv.svc, what, names(sv, scriptsIdx), orderDesc, k, scr, firstDiff(g.events, want.events))
		}
		if len(g.sessionIDs) > 1 {
			c.Violationf(fmt.Sprintf("C03:%s:%s:sessionid", sv.svc, what), "%s: events of session %d carry %d different session ids", sv.svc, k, len(g.sessionIDs))
		}
	}
	// no two sessions share a session id
	seen := map[string]int{}
	for _, k := range ks {
		for id := range got[k].sessionIDs {
			if o, ok := seen[id]; ok && o != k {
				c.Violationf(fmt.Sprintf("C03:%s:%s:sessionid-shared", sv.svc, what), "%s: sessions %d and %d share session id %s", sv.svc, o, k, id)
			}
			seen[id] = k
		}
	}
	// an event that carries a tag carries the address of the tag's owner
	for _, e := range all {
		port := lab.Str(e, "source-port")
		for key, v := range e {
			if key == "stacktrace" {
				continue
			}
			for _, m := range tagRe.FindAllStringSubmatch(fmt.Sprint(v), -1) {
				owner := "4000" + m[1]
				if port != owner {
					c.Violationf(fmt.Sprintf("C03:%s:%s:foreign-address", sv.svc, what), "%s %s scripts=%v order=%s: event field %s=%q (data of session %s) is recorded with source %s:%s", sv.svc, what, names(sv, scriptsIdx), orderDesc, key, trunc(fmt.Sprint(v), 80), m[1], lab.Str(e, "source-ip"), port)
				}
			}
		}
	}
}

func names(sv c03Service, idx []int) []string {
	var n []string
	for _, i := range idx {
		n = append(n, sv.scripts[i].name)
	}
	return n
}

func runC03(c *core.Ctx) {
	for _, sv := range c03Services() {
		sv := sv
		soloCache := map[string]obs{}
		solo := func(si, k int) obs {
			key := fmt.Sprintf("%d/%d", si, k)
			if o, ok := soloCache[key]; ok {
				return o
			}
			s := mkSess(sv, si, k)
			order := make([]int, s.nsteps())
			got, _ := c03Run(c, sv, []*c03Sess{s}, order)
			soloCache[key] = got[k]
			return got[k]
		}
		ns := len(sv.scripts)
		// --- 2 sessions, all interleavings of (dial, 3 sends, close)
		for a := 0; a < ns; a++ {
			for b := 0; b < ns; b++ {
				a, b := a, b
				c.Case(fmt.Sprintf("%s/pair/%s+%s", sv.svc, sv.scripts[a].name, sv.scripts[b].name), func() {
					lens := []int{mkSess(sv, a, 1).nsteps(), mkSess(sv, b, 2).nsteps()}
					interleavings(lens, func(order []int) {
						ss := []*c03Sess{mkSess(sv, a, 1), mkSess(sv, b, 2)}
						got, all := c03Run(c, sv, ss, order)
						c.Count("executions", 1)
						c03Check(c, sv, "interleaved", []int{a, b}, []int{1, 2}, got, all, solo, fmt.Sprint(order))
						c.Outcome(sv.svc, fmt.Sprint(got))
					})
					if c.WantSample() {
						c.Sample(map[string]interface{}{"service": sv.svc, "sessions": []string{sv.scripts[a].name, sv.scripts[b].name}, "steps_each": lens, "interleavings": "all merges"})
					}
				})
			}
		}
		// --- 3 sessions x (dial, first 1 send, close): all interleavings, scripts from the first two (thorough: all)
		lim := 2
		if c.Thorough() {
			lim = ns
		}
		for a := 0; a < lim; a++ {
			for b := 0; b < lim; b++ {
				for d := 0; d < lim; d++ {
					a, b, d := a, b, d
					for part := 0; part < 3; part++ {
						part := part
						if !c.Thorough() && part > 0 {
							continue
						}
						c.Case(fmt.Sprintf("%s/triple/%d,%d,%d/first%d", sv.svc, a, b, d, part), func() {
							mk := func() []*c03Sess {
								ss := []*c03Sess{mkSess(sv, a, 1), mkSess(sv, b, 2), mkSess(sv, d, 3)}
								for _, s := range ss {
									s.steps = s.steps[:2]
								}
								return ss
							}
							// solo baselines for truncated scripts
							soloT := func(si, k int) obs {
								key := fmt.Sprintf("T%d/%d", si, k)
								if o, ok := soloCache[key]; ok {
									return o
								}
								s := mkSess(sv, si, k)
								s.steps = s.steps[:2]
								got, _ := c03Run(c, sv, []*c03Sess{s}, make([]int, s.nsteps()))
								soloCache[key] = got[k]
								return got[k]
							}
							interleavings([]int{4, 4, 4}, func(order []int) {
								// bound: at most 4 context switches beyond the minimum keeps the count manageable in quick
								if !c.Thorough() && switches(order) > 6 {
									return
								}
								if c.Thorough() && order[0] != part { // thorough: one case per first mover
									return
								}
								if c.Stopping() {
									return
								}
								got, all := c03Run(c, sv, mk(), order)
								c.Count("executions", 1)
								c03Check(c, sv, "interleaved3", []int{a, b, d}, []int{1, 2, 3}, got, all, soloT, fmt.Sprint(order))
								c.Outcome(sv.svc, fmt.Sprint(got))
							})
						})
					}
				}
			}
		}
		// --- an earlier complete session, then all interleavings of two sessions (state left behind by a
		// finished session that only shows once two later sessions overlap)
		for h := 0; h < ns; h++ {
			for a := 0; a < ns; a++ {
				h, a := h, a
				c.Case(fmt.Sprintf("%s/history+pair/%s+%s", sv.svc, sv.scripts[h].name, sv.scripts[a].name), func() {
					for b := 0; b < ns; b++ {
						if !c.Thorough() && (a+b+h)%2 == 1 {
							continue
						}
						lens := []int{mkSess(sv, a, 1).nsteps(), mkSess(sv, b, 2).nsteps()}
						interleavings(lens, func(order []int) {
							if !c.Thorough() && switches(order) > 4 {
								return
							}
							early := mkSess(sv, h, 3)
							ss := []*c03Sess{mkSess(sv, a, 1), mkSess(sv, b, 2), early}
							full := make([]int, 0, early.nsteps()+len(order))
							for j := 0; j < early.nsteps(); j++ {
								full = append(full, 2)
							}
							full = append(full, order...)
							got, all := c03Run(c, sv, ss, full)
							c.Count("executions", 1)
							c03Check(c, sv, "history+interleaved", []int{a, b}, []int{1, 2}, got, all, solo, fmt.Sprintf("after a %s session: %v", sv.scripts[h].name, order))
							c.Outcome(sv.svc, "h+p", fmt.Sprint(got[1], got[2]))
						})
					}
				})
			}
		}
		// --- sequential histories: N earlier sessions, then a probe
		for _, n := range []int{1, 2, 3, 5} {
			for h := 0; h < ns; h++ {
				for p := 0; p < ns; p++ {
					n, h, p := n, h, p
					c.Case(fmt.Sprintf("%s/history/%dx%s+%s", sv.svc, n, sv.scripts[h].name, sv.scripts[p].name), func() {
						var ss []*c03Sess
						var order []int
						for i := 0; i < n; i++ {
							s := mkSess(sv, h, 1+(i%2)) // earlier clients alternate between two addresses
							ss = append(ss, s)
							for j := 0; j < s.nsteps(); j++ {
								order = append(order, i)
							}
						}
						probe := mkSess(sv, p, 3)
						ss = append(ss, probe)
						for j := 0; j < probe.nsteps(); j++ {
							order = append(order, n)
						}
						srv := startSvc(sv.svc)
						c03Prepare(sv)
						for _, i := range order {
							c03Step(srv, sv, ss[i])
							c.Count("transitions", 1)
						}
						settle()
						got := c03Observe(sv, []*c03Sess{probe})
						all := allEvents()
						srv.Stop()
						c.Count("executions", 1)
						c03Check(c, sv, "history", []int{p}, []int{3}, got, all, solo, fmt.Sprintf("%d earlier %s sessions", n, sv.scripts[h].name))
						c.Outcome(sv.svc, "hist", fmt.Sprint(got))
					})
				}
			}
		}
	}
}

func switches(order []int) int {
	n := 0
	for i := 1; i < len(order); i++ {
		if order[i] != order[i-1] {
			n++
		}
	}
	return n
}

var _ = sort.Strings

// c03Prepare creates one directory per session tag in the fresh FTP root, so
// that "CWD /<tag>" succeeds and a leaked working directory is observable.
func c03Prepare(sv c03Service) {
	if sv.svc != "ftp" {
		return
	}
	if r := ftpRoot(); r != "" {
		for k := 1; k <= 3; k++ {
			os.Mkdir(r+"/"+tagOf(k), 0755)
		}
	}
}

//go:build verifinst

package props

import (
	"fmt"
	"strings"

	"github.com/honeytrap/honeytrap/verifsched"

	"verif/h/core"
	"verif/h/lab"
)

// C16/fg — the agent session loop, the virtual connections and the stub
// services' reads under the fine-grain explorer: every schedule of the real
// goroutines (session loop, reply pump, accept consumer, one reader per virtual
// connection) with a bounded number of preemptions, all frames of the scenario
// already queued on the transport so that the session loop can run arbitrarily
// far ahead of the readers. Same oracle as the step-granular driver.

func init() {
	fgEnter = verifsched.Enter
	register("C16/fg", driver{run: runC16FG, needsStorage: true})
}

type c16FGScen struct {
	name       string
	lens       [][]int
	order      []c16Msg
	disconnect int
	bound      int
}

func runC16FG(c *core.Ctx) {
	b := 2
	if c.Thorough() {
		b = 3
	}
	h, d, e := "hello", "data", "eof"
	scens := []c16FGScen{
		{"hello data eof", [][]int{{3}}, []c16Msg{{0, h, 0}, {0, d, 0}, {0, e, 0}}, -1, b},
		{"hello data (stays open)", [][]int{{3}}, []c16Msg{{0, h, 0}, {0, d, 0}}, -1, b},
		{"hello data data eof", [][]int{{3, 5}}, []c16Msg{{0, h, 0}, {0, d, 0}, {0, d, 1}, {0, e, 0}}, -1, b},
		{"hello data, agent disconnects", [][]int{{3}}, []c16Msg{{0, h, 0}, {0, d, 0}}, 2, b},
		{"two connections", [][]int{{3}, {4}}, []c16Msg{{0, h, 0}, {1, h, 0}, {0, d, 0}, {1, d, 0}, {0, e, 0}, {1, e, 0}}, -1, b - 1},
		{"two connections, eof of one between data of the other", [][]int{{3, 2}, {4}}, []c16Msg{{0, h, 0}, {1, h, 0}, {0, d, 0}, {1, d, 0}, {1, e, 0}, {0, d, 1}}, -1, b - 1},
	}
	for _, s := range scens {
		s := s
		slug := strings.NewReplacer(" ", "-", ",", "").Replace(s.name)
		fgExplore(c, &fgScenario{
			prop:  "C16",
			name:  s.name,
			bound: s.bound,
			run: func(x *fgExec) map[string]string {
				v := map[string]string{}
				verifsched.Activate()
				env := c16Env{
					viol: func(sig, detail string) {
						sig = strings.Replace(sig, "C16:session:", "C16:fg:", 1) + ":" + slug
						if _, ok := v[sig]; !ok {
							v[sig] = detail
						}
					},
					quiesce:     x.drive,
					stepQuiesce: func() {},
					teardown:    verifsched.Deactivate,
					count:       func(string, int64) {},
					outcome:     func(...string) {},
				}
				c16Run(env, "fine-grain: "+s.name, c16Vconns(len(s.lens), s.lens), s.order, s.disconnect)
				verifsched.Deactivate()
				lab.Quiesce()
				return v
			},
		})
	}
	_ = fmt.Sprint
}

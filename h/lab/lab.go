// Package lab holds the harness plug-ins registered through honeytrap's public
// registries (listener "verif-mem", channel "verif-capture") and the driver
// that runs the real server.New + Run against them.
package lab

import (
	"bytes"
	"context"
	"fmt"
	"net"
	"os"
	"path/filepath"
	"sort"
	"strings"
	"sync"
	"time"

	"github.com/honeytrap/honeytrap/config"
	"github.com/honeytrap/honeytrap/director"
	"github.com/honeytrap/honeytrap/event"
	"github.com/honeytrap/honeytrap/listener"
	"github.com/honeytrap/honeytrap/pushers"
	"github.com/honeytrap/honeytrap/server"
	"github.com/honeytrap/honeytrap/services/smtp"

	"verif/h/memconn"
)

// ---------------------------------------------------------------- listener

// MemListener is the "verif-mem" listener: it records AddAddress calls and
// hands harness-made connections to the server's accept loop.
type MemListener struct {
	Addrs []net.Addr
	ch    chan net.Conn
}

var (
	regMu        sync.Mutex
	lastListener *MemListener
)

func newMemListener(options ...func(listener.Listener) error) (listener.Listener, error) {
	l := &MemListener{ch: make(chan net.Conn)}
	for _, o := range options {
		if err := o(l); err != nil {
			return nil, err
		}
	}
	regMu.Lock()
	lastListener = l
	regMu.Unlock()
	return l, nil
}

func (l *MemListener) AddAddress(a net.Addr)           { l.Addrs = append(l.Addrs, a) }
func (l *MemListener) Start(ctx context.Context) error { return nil }
func (l *MemListener) Accept() (net.Conn, error) {
	c := <-l.ch // never returns an error: the server panics on one
	return c, nil
}

// Inject hands a connection to the accept loop (blocks until accepted).
func (l *MemListener) Inject(c net.Conn) { l.ch <- c }

// ---------------------------------------------------------------- channel

// Capture is the "verif-capture" channel. Events are snapshotted into maps.
type Capture struct {
	ID string `toml:"id"`
}

type EventMap = map[string]interface{}

var (
	capMu    sync.Mutex
	captured = map[string][]EventMap{}
)

func newCapture(options ...func(pushers.Channel) error) (pushers.Channel, error) {
	c := &Capture{}
	for _, o := range options {
		if err := o(c); err != nil {
			return nil, err
		}
	}
	return c, nil
}

func (c *Capture) Send(e event.Event) {
	m := event.ToMap(e)
	capMu.Lock()
	captured[c.ID] = append(captured[c.ID], m)
	capMu.Unlock()
}

// Events returns (a copy of the list of) events captured by channel id.
func Events(id string) []EventMap {
	capMu.Lock()
	defer capMu.Unlock()
	return append([]EventMap(nil), captured[id]...)
}

// ResetEvents forgets all captured events.
func ResetEvents() {
	capMu.Lock()
	captured = map[string][]EventMap{}
	capMu.Unlock()
}

func init() {
	listener.Register("verif-mem", newMemListener)
	pushers.Register("verif-capture", newCapture)
}

// ---------------------------------------------------------------- server

// Server is one real honeytrap instance started through server.New + Run.
type Server struct {
	H      *server.Honeytrap
	L      *MemListener
	Cancel context.CancelFunc
	Done   chan struct{}
}

var tmpDir string

// ScratchDir is a per-process scratch directory (removed by the orchestrator).
func ScratchDir() string {
	if tmpDir == "" {
		base := os.Getenv("VF_SCRATCH")
		if base == "" {
			base = "/dev/shm"
		}
		d, err := os.MkdirTemp(base, "vfw-")
		if err != nil {
			panic(err)
		}
		tmpDir = d
	}
	return tmpDir
}

var cfgSeq int

// Start runs a real honeytrap with the given TOML. The listener section is
// added if absent. Must be called from the goroutine that owns the bubble (or
// outside any bubble); Run is started in a new goroutine.
func Start(toml string) (*Server, error) {
	if !strings.Contains(toml, "[listener]") {
		toml = "[listener]\ntype=\"verif-mem\"\n\n" + toml
	}
	cfgSeq++
	p := filepath.Join(ScratchDir(), fmt.Sprintf("cfg-%d.toml", cfgSeq))
	if err := os.WriteFile(p, []byte(toml), 0600); err != nil {
		return nil, err
	}
	defer os.Remove(p)
	// globals a second instance would inherit
	config.Default = config.Config{}
	smtp.DefaultServeMux = smtp.NewServeMux()
	regMu.Lock()
	lastListener = nil
	regMu.Unlock()

	opt, err := server.WithConfig(p)
	if err != nil {
		return nil, err
	}
	dd, err := server.WithDataDir(DataDir())
	if err != nil {
		return nil, err
	}
	h, err := server.New(opt, dd, server.WithToken())
	if err != nil {
		return nil, err
	}
	ctx, cancel := context.WithCancel(context.Background())
	s := &Server{H: h, Cancel: cancel, Done: make(chan struct{})}
	go func() {
		defer close(s.Done)
		h.Run(ctx)
	}()
	return s, nil
}

// DataDir is the per-process honeytrap data directory. Init must have been
// called outside any bubble first (badger writes cannot run inside one).
func DataDir() string {
	if d := os.Getenv("VF_DATADIR"); d != "" {
		return d
	}
	return filepath.Join(ScratchDir(), "data")
}

// Init opens the data directory (and with it the process-global badger store)
// the way cmd/honeytrap does. Call it once, outside the bubble.
func Init() {
	if _, err := server.WithDataDir(DataDir()); err != nil {
		panic(err)
	}
	dd, _ := server.WithDataDir(DataDir())
	h, err := server.New(dd, server.WithToken())
	if err != nil || h == nil {
		panic(fmt.Sprint("lab.Init: ", err))
	}
}

// Token returns the sensor token persisted in the data directory.
func Token() string {
	b, _ := os.ReadFile(filepath.Join(DataDir(), "token"))
	return string(b)
}

// Attach must be called after the first quiescence following Start: it picks
// up the listener instance Run constructed.
func (s *Server) Attach() error {
	regMu.Lock()
	s.L = lastListener
	regMu.Unlock()
	if s.L == nil {
		return fmt.Errorf("server did not construct the verif-mem listener")
	}
	return nil
}

// Stop cancels Run's context.
func (s *Server) Stop() { s.Cancel() }

// DialTCP creates an in-memory TCP connection and hands it to the accept loop.
func (s *Server) DialTCP(lip string, lport int, rip string, rport int) *memconn.Conn {
	c := memconn.TCP(lip, lport, rip, rport)
	s.L.Inject(c)
	return c
}

// DialPair creates a buffered full-duplex in-memory connection, hands the
// server end to the accept loop and returns the client end (for real client
// libraries such as x/crypto/ssh and crypto/tls).
func (s *Server) DialPair(lip string, lport int, rip string, rport int) *memconn.End {
	srv, cli := memconn.Pair(&net.TCPAddr{IP: net.ParseIP(lip), Port: lport}, &net.TCPAddr{IP: net.ParseIP(rip), Port: rport})
	s.L.Inject(srv)
	return cli
}

// UDPReply is one datagram a service wrote back.
type UDPReply struct {
	To   string
	Data []byte
}

// Datagram is an injected UDP datagram and the replies it drew.
type Datagram struct {
	Conn    *listener.DummyUDPConn
	mu      sync.Mutex
	replies []UDPReply
}

func (d *Datagram) Replies() []UDPReply {
	d.mu.Lock()
	defer d.mu.Unlock()
	return append([]UDPReply(nil), d.replies...)
}

// NewDatagram builds the connection the socket listener builds for a datagram.
func NewDatagram(lip string, lport int, rip string, rport int, payload []byte) *Datagram {
	d := &Datagram{}
	d.Conn = &listener.DummyUDPConn{
		Buffer: append([]byte(nil), payload...),
		Laddr:  &net.UDPAddr{IP: net.ParseIP(lip), Port: lport},
		Raddr:  &net.UDPAddr{IP: net.ParseIP(rip), Port: rport},
		Fn: func(b []byte, addr *net.UDPAddr) (int, error) {
			d.mu.Lock()
			d.replies = append(d.replies, UDPReply{To: addr.String(), Data: append([]byte(nil), b...)})
			d.mu.Unlock()
			return len(b), nil
		},
	}
	return d
}

// SendUDP injects one datagram through the accept loop.
func (s *Server) SendUDP(lip string, lport int, rip string, rport int, payload []byte) *Datagram {
	d := NewDatagram(lip, lport, rip, rport, payload)
	s.L.Inject(d.Conn)
	return d
}

// ---------------------------------------------------------------- helpers

// Canon renders an event map deterministically, dropping volatile keys.
func Canon(m EventMap, drop ...string) string {
	skip := map[string]bool{"date": true}
	for _, d := range drop {
		skip[d] = true
	}
	keys := make([]string, 0, len(m))
	for k := range m {
		if !skip[k] {
			keys = append(keys, k)
		}
	}
	sort.Strings(keys)
	var b bytes.Buffer
	for _, k := range keys {
		fmt.Fprintf(&b, "%s=%v;", k, render(m[k]))
	}
	return b.String()
}

func render(v interface{}) string {
	switch x := v.(type) {
	case time.Time:
		return "<time>"
	case []byte:
		return fmt.Sprintf("%x", x)
	case error:
		return x.Error()
	case fmt.Stringer:
		return x.String()
	}
	return fmt.Sprintf("%v", v)
}

// Str fetches a string-ish field.
func Str(m EventMap, k string) string {
	v, ok := m[k]
	if !ok {
		return ""
	}
	return render(v)
}

// ---------------------------------------------------------------- director

// MemDirector is the "verif-mem" director: Dial returns the proxy-side end of
// an in-memory duplex connection and hands the backend-side end to the harness.
type MemDirector struct {
	ID string `toml:"id"`
}

// BackendConn is one connection a proxy service opened through the director.
type BackendConn struct {
	Proxy   *memconn.End // the end the proxy service talks to (MaxRead controls reply segmentation)
	Backend *memconn.End // the harness's end
	For     string       // remote address of the client connection it was dialled for
	UDP     bool
}

var (
	dirMu    sync.Mutex
	dials    []*BackendConn
	onDial   func(*BackendConn)
	dialFail error
)

// OnDial installs the backend: f runs (in a new goroutine) for every dial.
func OnDial(f func(*BackendConn)) {
	dirMu.Lock()
	onDial = f
	dials = nil
	dirMu.Unlock()
}

// ProxyMaxRead makes every later dialled proxy-side end return at most n bytes per Read.
var ProxyMaxRead int

func Dials() []*BackendConn {
	dirMu.Lock()
	defer dirMu.Unlock()
	return append([]*BackendConn(nil), dials...)
}

func (d *MemDirector) Dial(conn net.Conn) (net.Conn, error) {
	var la, ra net.Addr
	udp := false
	switch a := conn.LocalAddr().(type) {
	case *net.UDPAddr:
		udp = true
		la, ra = &net.UDPAddr{IP: net.ParseIP("10.0.0.1"), Port: 1}, &net.UDPAddr{IP: net.ParseIP("10.8.8.8"), Port: a.Port}
	default:
		p := 0
		if t, ok := a.(*net.TCPAddr); ok {
			p = t.Port
		}
		la, ra = &net.TCPAddr{IP: net.ParseIP("10.0.0.1"), Port: 1}, &net.TCPAddr{IP: net.ParseIP("10.8.8.8"), Port: p}
	}
	proxyEnd, backendEnd := memconn.Pair(la, ra)
	proxyEnd.MaxRead = ProxyMaxRead
	bc := &BackendConn{Proxy: proxyEnd, Backend: backendEnd, For: conn.RemoteAddr().String(), UDP: udp}
	dirMu.Lock()
	dials = append(dials, bc)
	f := onDial
	dirMu.Unlock()
	if f != nil {
		go f(bc)
	}
	return proxyEnd, nil
}

func init() {
	director.Register("verif-mem", func(options ...func(director.Director) error) (director.Director, error) {
		d := &MemDirector{}
		for _, o := range options {
			o(d)
		}
		return d, nil
	})
}

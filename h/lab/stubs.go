package lab

import (
	"context"
	"net"
	"sync"

	"github.com/honeytrap/honeytrap/pushers"
	"github.com/honeytrap/honeytrap/services"
)

// Stub services registered through the public service registry:
//
//	verif-plain  no payload detector; records every byte it reads until EOF
//	verif-det    detector "first byte == accept[0]"; records likewise
//	verif-emit   gives the harness the channel handle (the bus) services get
type Visit struct {
	Service string // the stub's configured name
	Local   string
	Remote  string
	Data    []byte
	Done    bool
	Err     string
}

// StubReadSize is the size of the buffer the recording stubs read with (0 = 4096).
var StubReadSize int

var (
	stubMu   sync.Mutex
	visits   []*Visit
	emitters []*Emit
)

func Visits() []*Visit {
	stubMu.Lock()
	defer stubMu.Unlock()
	out := make([]*Visit, len(visits))
	for i, v := range visits {
		c := *v
		c.Data = append([]byte(nil), v.Data...)
		out[i] = &c
	}
	return out
}

func ResetStubs() {
	stubMu.Lock()
	visits = nil
	emitters = nil
	stubMu.Unlock()
}

type plainStub struct {
	Name  string `toml:"name"`
	Reply string `toml:"reply"`
	ch    pushers.Channel
}

func (s *plainStub) SetChannel(c pushers.Channel) { s.ch = c }

func record(name string, reply string, conn net.Conn) error {
	v := &Visit{Service: name, Local: conn.LocalAddr().String(), Remote: conn.RemoteAddr().String()}
	stubMu.Lock()
	visits = append(visits, v)
	stubMu.Unlock()
	if reply != "" {
		conn.Write([]byte(reply))
	}
	size := StubReadSize
	if size <= 0 {
		size = 4096
	}
	buf := make([]byte, size)
	for {
		n, err := conn.Read(buf)
		stubMu.Lock()
		v.Data = append(v.Data, buf[:n]...)
		stubMu.Unlock()
		if err != nil {
			stubMu.Lock()
			v.Done = true
			v.Err = err.Error()
			stubMu.Unlock()
			return nil
		}
		if n == 0 {
			// a datagram connection that reports (0, nil) when drained
			stubMu.Lock()
			v.Done = true
			v.Err = "zero-read"
			stubMu.Unlock()
			return nil
		}
	}
}

func (s *plainStub) Handle(ctx context.Context, conn net.Conn) error {
	return record(s.Name, s.Reply, conn)
}

type detStub struct {
	Name   string `toml:"name"`
	Accept string `toml:"accept"`
	Reply  string `toml:"reply"`
	ch     pushers.Channel
}

func (s *detStub) SetChannel(c pushers.Channel) { s.ch = c }
func (s *detStub) CanHandle(p []byte) bool {
	return len(p) > 0 && len(s.Accept) > 0 && p[0] == s.Accept[0]
}
func (s *detStub) Handle(ctx context.Context, conn net.Conn) error {
	return record(s.Name, s.Reply, conn)
}

// Emit is the verif-emit stub: Ch is the channel handle services are given.
type Emit struct {
	Name string `toml:"name"`
	Ch   pushers.Channel
}

func (s *Emit) SetChannel(c pushers.Channel)                    { s.Ch = c }
func (s *Emit) Handle(ctx context.Context, conn net.Conn) error { return nil }

// Emitters returns the verif-emit instances constructed since ResetStubs.
func Emitters() []*Emit {
	stubMu.Lock()
	defer stubMu.Unlock()
	return append([]*Emit(nil), emitters...)
}

func init() {
	services.Register("verif-plain", func(options ...services.ServicerFunc) services.Servicer {
		s := &plainStub{}
		for _, o := range options {
			o(s)
		}
		return s
	})
	services.Register("verif-det", func(options ...services.ServicerFunc) services.Servicer {
		s := &detStub{}
		for _, o := range options {
			o(s)
		}
		return s
	})
	services.Register("verif-emit", func(options ...services.ServicerFunc) services.Servicer {
		s := &Emit{}
		for _, o := range options {
			o(s)
		}
		stubMu.Lock()
		emitters = append(emitters, s)
		stubMu.Unlock()
		return s
	})
}

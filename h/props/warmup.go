package props

import (
	"verif/h/core"

	"github.com/honeytrap/honeytrap/pushers"
	_ "github.com/honeytrap/honeytrap/server" // registers every service, listener, channel
	"github.com/honeytrap/honeytrap/services"
)

// warmup constructs every storage-using service once outside the bubble, so
// their keys and certificates are generated and persisted here and badger is
// only ever read from inside the bubble.
func warmup() {
	core.Relaxed.Store(true)
	defer func() { core.Relaxed.Store(false); core.Tick() }()
	for _, name := range []string{"ftp", "smtp", "ldap", "ssh-simulator", "ssh-auth", "ssh-proxy", "ssh-jail"} {
		fn, ok := services.Get(name)
		if !ok {
			continue
		}
		core.Tick() // key generation is slow and of random duration: one watchdog step per service
		func() {
			defer func() { recover() }()
			fn(services.WithChannel(pushers.MustDummy()))
		}()
	}
}

#!/bin/bash
# usage: lib/confirm_seed.sh <agent-worktree> <seed-name> <property> <demo-target-relpath> [go test tags] [-run pattern]
# Confirms an independently written property-breaking change in a fresh scratch worktree:
# build, existing tests (all packages except the slow vendored TLS stack), demonstration fails with the
# change and passes without it. On success stores it under /verif/seeded/<seed-name>/.
set -u
SRC=$1; NAME=$2; PROP=$3; DEMO_TARGET=$4; TAGS=${5:-}; RUN=${6:-}
export GOFLAGS=-mod=mod GOPROXY=off GOSUMDB=off
WT=/tmp/vf-confirm-$NAME
git -C /repo worktree remove --force $WT >/dev/null 2>&1; rm -rf $WT
git -C /repo worktree add --detach $WT HEAD >/dev/null 2>&1 || { echo "worktree failed"; exit 2; }
cleanup() { git -C /repo worktree remove --force $WT >/dev/null 2>&1; rm -rf $WT; }
trap cleanup EXIT
cd $WT
DEMO=$SRC/SEED/demo_test.go
PKG=./$(dirname $DEMO_TARGET)
tagarg=(); [ -n "$TAGS" ] && tagarg=(-tags "$TAGS")
[ -n "$RUN" ] && tagarg+=(-run "$RUN")
# 1. demonstration WITHOUT the change
cp $DEMO $WT/$DEMO_TARGET
go test -vet=off -count=1 "${tagarg[@]}" $PKG > /tmp/confirm-$NAME-without.log 2>&1; RC_WITHOUT=$?
# 2. apply the change
git apply $SRC/SEED/patch.diff || { echo "patch does not apply"; exit 2; }
go build ./... > /tmp/confirm-$NAME-build.log 2>&1; RC_BUILD=$?
go test -vet=off -count=1 "${tagarg[@]}" $PKG > /tmp/confirm-$NAME-with.log 2>&1; RC_WITH=$?
# 3. existing tests with the change, demo removed
rm -f $WT/$DEMO_TARGET
go test -vet=off -count=1 $(go list ./... | grep -v 'ja3/crypto/tls') > /tmp/confirm-$NAME-suite.log 2>&1; RC_SUITE=$?
echo "build=$RC_BUILD demo_without=$RC_WITHOUT demo_with=$RC_WITH existing_tests=$RC_SUITE"
if [ $RC_BUILD -eq 0 ] && [ $RC_WITHOUT -eq 0 ] && [ $RC_WITH -ne 0 ] && [ $RC_SUITE -eq 0 ]; then
  D=/verif/seeded/$NAME; mkdir -p $D
  cp $SRC/SEED/patch.diff $D/patch.diff; cp $DEMO $D/$(basename $DEMO); cp $SRC/SEED/notes.md $D/notes.md 2>/dev/null
  python3 - "$D" "$PROP" "$DEMO_TARGET" "$TAGS" <<'PY'
import json,sys
d,prop,target,tags=sys.argv[1:5]
json.dump({"property":prop,"demonstration":{"file":target,"run":"go test -vet=off -count=1 %s ./%s" % (("-tags "+tags) if tags else "", "/".join(target.split("/")[:-1]))},
 "confirmed":{"go_build":"ok","existing_tests_except_ja3_tls":"pass with the change","demonstration_without_change":"pass","demonstration_with_change":"fail"},
 "needs_to_manifest":"see notes.md","origin":"written by an independent sub-agent that saw only the property text"},open(d+"/meta.json","w"),indent=1)
PY
  echo "CONFIRMED -> $D"
else
  echo "NOT CONFIRMED (see /tmp/confirm-$NAME-*.log)"; tail -5 /tmp/confirm-$NAME-with.log
fi

"""Per-property evidence metadata used by the orchestrator (rule text, bounds, assumptions)."""

COMMON_ASSUME = [
    "Go 1.26.8 runtime; testing/synctest quiescence (synctest.Wait) and fake clock are exact",
    "harness plug-ins (memconn, verif-mem listener, verif-capture channel) are faithful net.Conn/listener/channel implementations",
    "honeytrap is compiled from /repo's current working tree at check time (module replace => /repo)",
]

META = {
    "C05": dict(
        rule="exhaustive enumeration on the real event package: Payload for all 1- and 2-byte strings and boundary lengths x 5 fill patterns; SourceAddr/DestinationAddr over address kinds x ports; all ordered tuples (<=2 quick, <=3 thorough) of 16 constructor options vs. a map model; MergeFrom/CopyFrom over all 3-key maps x pre-existing subsets x value kinds; every event harvested from the service dialogues marshalled the way the channels do. Distinct = distinct (part, input) observation classes.",
        bounds_quick="2-byte strings exhaustive; option tuples depth 2; merge 3 keys",
        bounds_thorough="2-byte strings exhaustive; option tuples depth 3; merge 3 keys",
        assumptions=COMMON_ASSUME,
    ),
    "C17": dict(
        rule="decoder: explicit-state BFS on the real services/decoder object per buffer (state = (cursor, sticky-error flag); successors built by replaying the shortest path on a fresh decoder over a cap-limited buffer) over all buffers of length 0..2 (all byte values) and 3..6 over {00,01,7f,80,ff}, alphabet {Byte,Int16,Int32,Uint32,PeekByte,PeekInt16,Data,Copy(n),Seek(n)} n in -3..8, depth 4, every transition compared with a reference decoder; plus all unmerged operation sequences of length 3 on buffers <=3 bytes. IPP: requests built by an independent RFC 8010 encoder (5 operations x versions x request ids x documents; one attribute of every supported value tag at every position; ordered attribute pairs) POSTed to the real ipp service through server.Run in a bubble; reply parsed by an independent parser. Distinct = distinct per-buffer (states,transitions) outcomes and distinct IPP (request class, reply shape) outcomes.",
        bounds_quick="decoder depth 4 (BFS), unmerged depth 3; IPP: 1 extra attr x 5 positions, pruned pairs",
        bounds_thorough="decoder depth 4 (BFS), unmerged depth 4 on buffers <=2; IPP: all ordered pairs, 64 KiB document",
        assumptions=COMMON_ASSUME + ["decoder state canonicalisation: methods read only (data, offset) and write only (offset, lasterror) - cross-checked by the unmerged sequence enumeration"],
    ),
    "C06": dict(
        rule="every configuration is run through the real server.New+Run wiring in a bubble: channel sets {c1},{c1,c2},{c1,c2,c3},{} x all filter lists of length 0..2 over the full 216-filter alphabet (6 channel lists incl. duplicate and unknown names x 6 category lists x 6 service lists incl. absent, empty, anchors, alternation) plus length 3 (thorough: 4) over a pairwise-complete 36-filter alphabet; 12 events (category/service over a,b,ab,'',missing,int) are put on the real bus through the channel handle a service receives; per-channel ordered delivery lists are compared with a reference routing model, the token with the sensor token, and each channel's list with a real run of the configuration projected on that channel alone. Distinct = distinct per-channel delivery outcomes.",
        bounds_quick="filters <=2 full alphabet, 3 reduced; 12 events",
        bounds_thorough="filters <=2 full alphabet, 3-4 reduced; 12 events",
        assumptions=COMMON_ASSUME + ["an empty (but present) expression list is treated like an absent one, as the wiring does; missing or non-string category/service match as the empty string"],
    ),
}

package props

import (
	"fmt"
	"github.com/honeytrap/honeytrap/services"
	"github.com/honeytrap/honeytrap/services/ftp"
	"strings"

	"verif/h/core"
	"verif/h/lab"
)

// C12 — logins succeed exactly for configured credentials; gated commands stay
// gated. Credential sets x attempt sequences are enumerated against the real
// services: ssh-simulator through a real x/crypto/ssh client (one connection =
// one user, a sequence of passwords through a retrying callback), ldap through
// BER built by the harness, ftp through text. Reference = a Go map.

func init() { register("C12", driver{run: runC12, needsStorage: true}) }

type cred struct{ u, p string }

func (c cred) String() string { return fmt.Sprintf("%q:%q", c.u, c.p) }

var c12Users = []string{"root", "admin", "guest", ""}
var c12Pws = []string{"root", "admin", "123456", ""}

func allPairs() []cred {
	var out []cred
	for _, u := range c12Users {
		for _, p := range c12Pws {
			out = append(out, cred{u, p})
		}
	}
	return out
}

type credSet struct {
	creds    []cred
	wildcard bool
}

func (s credSet) has(c cred) bool {
	if s.wildcard {
		return true
	}
	for _, x := range s.creds {
		if x == c {
			return true
		}
	}
	return false
}

func (s credSet) toml() string {
	var parts []string
	if s.wildcard {
		parts = append(parts, `"*"`)
	}
	for _, c := range s.creds {
		parts = append(parts, fmt.Sprintf("%q", c.u+":"+c.p))
	}
	return "credentials=[" + strings.Join(parts, ",") + "]"
}

func (s credSet) String() string {
	if s.wildcard {
		return fmt.Sprintf("{* %v}", s.creds)
	}
	return fmt.Sprint(s.creds)
}

// subsets of size <= k of the 16 pairs
func credSubsets(k int) []credSet {
	pairs := allPairs()
	var out []credSet
	var rec func(start int, cur []cred)
	rec = func(start int, cur []cred) {
		out = append(out, credSet{creds: append([]cred(nil), cur...)})
		if len(cur) == k {
			return
		}
		for i := start; i < len(pairs); i++ {
			rec(i+1, append(cur, pairs[i]))
		}
	}
	rec(0, nil)
	return out
}

func startWith(svc, extra string) *lab.Server {
	sp := svcSpecs[svc]
	old := sp
	sp.extra = extra
	svcSpecs[svc] = sp
	s := startSvc(svc)
	svcSpecs[svc] = old
	return s
}

func runC12(c *core.Ctx) {
	c12SSH(c)
	c12LDAP(c)
	c12FTP(c)
}

// ---------------------------------------------------------------- ssh

func c12SSH(c *core.Ctx) {
	r, a, g, e := "root", "admin", "guest", ""
	_ = g
	sets := []credSet{
		{}, {wildcard: true}, {creds: []cred{{r, r}}}, {creds: []cred{{r, e}}}, {creds: []cred{{e, r}}}, {creds: []cred{{e, e}}},
		{creds: []cred{{r, r}, {a, a}}}, {creds: []cred{{r, r}, {r, a}}}, {creds: []cred{{r, r}, {a, r}}}, {creds: []cred{{r, a}, {a, r}}},
		{creds: []cred{{r, r}, {e, e}}}, {wildcard: true, creds: []cred{{r, r}}}, {creds: []cred{{r, r}, {a, a}, {g, "123456"}}}, {creds: []cred{{r, a}, {r, "123456"}, {r, e}}},
		{creds: []cred{{a, "123456"}}}, {creds: []cred{{g, e}, {e, "123456"}}},
	}
	if c.Thorough() {
		sets = append(sets, credSubsets(2)[1:]...)
	}
	maxLen := 3
	for si, set := range sets {
		si, set := si, set
		c.Case(fmt.Sprintf("ssh/set%d%s", si, trunc(set.String(), 60)), func() {
			s := startWith("ssh-simulator", set.toml())
			defer s.Stop()
			for _, user := range c12Users {
				var rec func(seq []string)
				rec = func(seq []string) {
					if len(seq) > 0 {
						c12SSHOne(c, s, set, user, seq)
					}
					if len(seq) == maxLen {
						return
					}
					// an accepted password ends the sequence
					if len(seq) > 0 && set.has(cred{user, seq[len(seq)-1]}) {
						return
					}
					for _, p := range c12Pws {
						rec(append(append([]string(nil), seq...), p))
					}
				}
				rec(nil)
			}
			c.Outcome("ssh", set.String())
		})
	}
}

func c12SSHOne(c *core.Ctx, s *lab.Server, set credSet, user string, pws []string) {
	lab.ResetEvents()
	a := sshConnect(s, "ssh-simulator", 0, user, pws)
	c.Count("executions", 1)
	c.Count("transitions", int64(len(pws)))
	// reference
	wantAccepted := -1
	for i, p := range pws {
		if set.has(cred{user, p}) {
			wantAccepted = i
			break
		}
	}
	wantTried := len(pws)
	if wantAccepted >= 0 {
		wantTried = wantAccepted + 1
	}
	desc := fmt.Sprintf("ssh-simulator credentials=%s user=%q passwords=%q", set, user, pws)
	if !a.done {
		c.Violationf("C12:ssh:handshake-stuck", "%s: the SSH handshake did not finish", desc)
		a.close()
		return
	}
	if a.accepted != wantAccepted {
		kind := "accepted-wrong"
		if wantAccepted >= 0 {
			kind = "rejected-right"
		}
		c.Violationf("C12:ssh:"+kind, "%s: server accepted attempt #%d, reference says #%d (err=%v)", desc, a.accepted, wantAccepted, a.err)
	}
	var got []string
	for _, ev := range eventsOf(0) {
		if lab.Str(ev, "type") == "password-authentication" {
			got = append(got, lab.Str(ev, "ssh.username")+"\x00"+lab.Str(ev, "ssh.password"))
		}
	}
	var want []string
	for i := 0; i < wantTried && i < len(a.tried); i++ {
		want = append(want, user+"\x00"+pws[i])
	}
	if strings.Join(got, "|") != strings.Join(want, "|") {
		c.Violationf("C12:ssh:auth-events", "%s: authentication events %q, expected one per attempt %q", desc, got, want)
	}
	c.Class(fmt.Sprintf("ssh accepted=%v", a.accepted >= 0))
	a.close()
}

// ---------------------------------------------------------------- ldap

func ldapResultCode(reply []byte) (msgs int, lastCode int) {
	lastCode = -1
	rest := reply
	for len(rest) > 0 {
		n, ok := berSize(rest)
		if !ok || n > len(rest) {
			return msgs, -2
		}
		m := rest[:n]
		rest = rest[n:]
		msgs++
		// 30 len | 02 idlen id | op-tag len | 0a 01 code ...
		h := 2
		if m[1]&0x80 != 0 {
			h = 2 + int(m[1]&0x7f)
		}
		if h+2 >= len(m) {
			continue
		}
		i := h + 2 + int(m[h+1]) // skip message id
		if i+2 >= len(m) {
			continue
		}
		oh := 2
		if m[i+1]&0x80 != 0 {
			oh = 2 + int(m[i+1]&0x7f)
		}
		j := i + oh
		if j+2 < len(m) && m[j] == 0x0a && m[j+1] == 1 {
			lastCode = int(m[j+2])
		}
	}
	return
}

func c12LDAP(c *core.Ctx) {
	k := 2
	if c.Thorough() {
		k = 3
	}
	sets := credSubsets(k)
	pairs := allPairs()
	gated := []struct {
		name string
		mk   func(id int) []byte
	}{
		{"delete", func(id int) []byte { return ldapDelete(id, "cn=x,dc=y") }},
		{"add", func(id int) []byte { return ldapAdd(id, "cn=x,dc=y") }},
		{"modify", func(id int) []byte { return ldapModify(id, "cn=x,dc=y") }},
		{"modify-dn", func(id int) []byte { return ldapModifyDN(id, "cn=x,dc=y", "cn=z") }},
		{"compare", func(id int) []byte { return ldapCompare(id, "cn=x,dc=y", "sn", "v") }},
	}
	dn := func(u string) string {
		if u == "" {
			return ""
		}
		return "cn=" + u + ",dc=example"
	}
	for si, set := range sets {
		si, set := si, set
		c.Case(fmt.Sprintf("ldap/set%d%s", si, trunc(set.String(), 50)), func() {
			s := startWith("ldap", set.toml())
			defer s.Stop()
			maxLen := 2
			if len(set.creds) <= 1 || c.Thorough() {
				maxLen = 3
			}
			var rec func(seq []cred)
			rec = func(seq []cred) {
				if len(seq) > 0 {
					c12LDAPOne(c, s, set, seq, dn, gated)
				}
				if len(seq) == maxLen {
					return
				}
				alphabet := pairs
				if len(seq) >= 2 {
					// third attempt: one representative per class relative to the set
					alphabet = classAlphabet(set)
				}
				for _, p := range alphabet {
					rec(append(append([]cred(nil), seq...), p))
				}
			}
			rec(nil)
			c.Outcome("ldap", set.String())
		})
	}
}

// classAlphabet: exact member, right user wrong password, wrong user right
// password, empty/empty, empty user, empty password.
func classAlphabet(set credSet) []cred {
	out := []cred{{"", ""}, {"", "123456"}, {"guest", ""}, {"nobody", "nothing"}}
	if len(set.creds) > 0 {
		m := set.creds[0]
		out = append(out, m, cred{m.u, m.p + "x"}, cred{m.u + "x", m.p})
	}
	return out
}

func c12LDAPOne(c *core.Ctx, s *lab.Server, set credSet, seq []cred, dn func(string) string, gated []struct {
	name string
	mk   func(id int) []byte
}) {
	lab.ResetEvents()
	conn := dial(s, "ldap", 0)
	lab.Quiesce()
	id := 1
	exchange := func(b []byte) (int, int) {
		conn.Take()
		conn.Send(b)
		lab.Quiesce()
		c.Count("transitions", 1)
		return ldapResultCode(conn.Take())
	}
	loggedIn := false // a non-anonymous attempt has succeeded
	anonSuccess := false
	desc := func() string { return fmt.Sprintf("ldap credentials=%s attempts=%v", set, seq) }
	probe := func(stage string) {
		for _, g := range gated {
			n, code := exchange(g.mk(id))
			id++
			if !loggedIn && !anonSuccess {
				// success(0) - and for a compare also compareFalse(5) / compareTrue(6) - means the operation was carried out
				if n != 1 || code == 0 || (g.name == "compare" && (code == 5 || code == 6)) {
					c.Violationf("C12:ldap:gate-open:"+g.name, "%s: %s before any successful login (%s) was answered with result code %d (messages %d); it must be refused", desc(), g.name, stage, code, n)
				}
			}
			c.Class(fmt.Sprintf("ldap %s loggedIn=%v code=%d", g.name, loggedIn, code))
		}
	}
	probe("before the first attempt")
	for i, a := range seq {
		n, code := exchange(ldapBind(id, dn(a.u), a.p))
		id++
		anonymous := a.u == "" && a.p == ""
		want := set.has(a)
		ok := n == 1 && code == 0
		if !anonymous && ok != want {
			kind := "accepted-wrong"
			if want {
				kind = "rejected-right"
			}
			c.Violationf("C12:ldap:"+kind, "%s: attempt #%d %v answered with result code %d, reference says success=%v", desc(), i, a, code, want)
		}
		if anonymous && !ok {
			c.Violationf("C12:ldap:anonymous-bind", "%s: anonymous bind answered with result code %d", desc(), code)
		}
		if ok && !anonymous {
			loggedIn = true
		}
		if ok && anonymous {
			anonSuccess = set.has(a) // "" : "" configured: the statement does not say whether that opens the gates
		}
		probe(fmt.Sprintf("after attempt #%d", i))
	}
	conn.CloseWrite()
	settleConn(conn)
	c.Count("executions", 1)
	// one authentication event per attempt, with the evaluated user and the presented password
	var got, want []string
	for _, ev := range eventsOf(0) {
		if lab.Str(ev, "ldap.request-type") == "bind" {
			got = append(got, lab.Str(ev, "ldap.username")+"\x00"+lab.Str(ev, "ldap.password"))
		}
	}
	for _, a := range seq {
		want = append(want, a.u+"\x00"+a.p)
	}
	if strings.Join(got, "|") != strings.Join(want, "|") {
		c.Violationf("C12:ldap:auth-events", "%s: bind events %q, expected %q", desc(), got, want)
	}
}

// ---------------------------------------------------------------- ftp

// c12FTPTable is the credential table of the next "verif-ftp-auth" service instance.
var c12FTPTable map[string]string

func init() {
	services.Register("verif-ftp-auth", func(options ...services.ServicerFunc) services.Servicer {
		s := ftp.FTP(options...)
		ftp.VerifSetAuth(s, ftp.VerifAuth(c12FTPTable))
		return s
	})
}

// c12FTPTables: (a) the credential checker itself against a map, for all tables of <= 2 entries over
// 3 users x 3 passwords and all 16 presented pairs; (b) whole sessions against the real service whose
// checker is built over tables with two users (the shipped service has a single fixed credential).
func c12FTPTables(c *core.Ctx) {
	users := []string{"root", "admin", "Root", ""}
	pws := []string{"root", "123456", "", "ROOT"}
	var all []cred
	for _, u := range users[:3] {
		for _, p := range pws[:3] {
			all = append(all, cred{u, p})
		}
	}
	c.Case("ftp-table/checker", func() {
		var tables [][]cred
		tables = append(tables, nil)
		for i, a := range all {
			tables = append(tables, []cred{a})
			for _, b := range all[i+1:] {
				if a.u != b.u { // a map holds one password per user
					tables = append(tables, []cred{a, b})
				}
			}
		}
		for _, t := range tables {
			m := map[string]string{}
			for _, x := range t {
				m[x.u] = x.p
			}
			auth := ftp.VerifAuth(m)
			for _, u := range users {
				for _, p := range pws {
					got, err := auth.CheckPasswd(u, p)
					pw, ok := m[u]
					want := ok && pw == p
					c.Count("executions", 1)
					if err != nil || got != want {
						c.Violationf("C12:ftp:checker", "credential table %v: CheckPasswd(%q, %q) = %v, %v; the pair is in the table: %v", t, u, p, got, err, want)
					}
				}
			}
			c.Outcome("ftp-table", fmt.Sprint(t))
		}
	})
	gatedAll := []string{"PWD", "CWD /", "LIST", "MKD d1", "DELE f1", "RNFR f1", "SIZE f1", "SYST"}
	gatedSafe := []string{"PWD", "CWD /", "SIZE f1"}
	for ti, t := range [][]cred{{{"root", "root"}, {"admin", "123456"}}, {{"root", "ROOT"}, {"admin", "root"}}} {
		ti, t := ti, t
		c.Case(fmt.Sprintf("ftp-table/session/%v", t), func() {
			m := map[string]string{}
			for _, x := range t {
				m[x.u] = x.p
			}
			set := credSet{creds: t}
			var pairs []cred
			for _, u := range []string{"root", "admin", "anonymous"} {
				for _, p := range []string{"root", "123456", "ROOT", "anonymous"} { // PASS requires a parameter: no empty passwords on the wire
					pairs = append(pairs, cred{u, p})
				}
			}
			for _, a := range pairs {
				for _, b := range append([]cred{{"", ""}}, pairs...) {
					seq := []cred{a}
					if b.u != "" {
						seq = append(seq, b)
					}
					c12FTPTable = m
					s := startSvc("verif-ftp-auth")
					c12FTPSession(c, s, "verif-ftp-auth", set, seq, gatedAll, gatedSafe)
					s.Stop()
				}
			}
			_ = ti
		})
	}
}

func c12FTP(c *core.Ctx) {
	c12FTPTables(c)
	set := credSet{creds: []cred{{"anonymous", "anonymous"}}}
	users := []string{"anonymous", "root", "anonymousx", "Anonymous"}
	pws := []string{"anonymous", "root", "x", "anonymous2"}
	var pairs []cred
	for _, u := range users {
		for _, p := range pws {
			pairs = append(pairs, cred{u, p})
		}
	}
	gatedAll := []string{"PWD", "CWD /", "CDUP", "LIST", "NLST", "MKD d1", "RMD d1", "DELE f1", "RNFR f1", "RETR f1", "STOR f1", "APPE f1", "SIZE f1", "MDTM f1", "XPWD", "XCWD /", "REST 0", "TYPE I", "SYST"}
	gatedSafe := []string{"PWD", "CWD /", "MKD d1", "RMD d1", "DELE f1", "RNFR f1", "SIZE f1", "MDTM f1"}
	maxLen := 3
	for fi := range pairs {
		fi := fi
		c.Case(fmt.Sprintf("ftp/first=%v", pairs[fi]), func() {
			s := startSvc("ftp")
			defer s.Stop()
			var rec func(seq []cred)
			rec = func(seq []cred) {
				c12FTPOne(c, s, set, seq, gatedAll, gatedSafe)
				if len(seq) == maxLen {
					return
				}
				for _, p := range pairs {
					if len(seq) >= 2 && p.u != "anonymous" && p.u != "root" {
						continue
					}
					rec(append(append([]cred(nil), seq...), p))
				}
			}
			rec([]cred{pairs[fi]})
			c.Outcome("ftp", fmt.Sprint(pairs[fi]))
		})
	}
}

func c12FTPOne(c *core.Ctx, s *lab.Server, set credSet, seq []cred, gatedAll, gatedSafe []string) {
	c12FTPSession(c, s, "ftp", set, seq, gatedAll, gatedSafe)
}

func c12FTPSession(c *core.Ctx, s *lab.Server, svc string, set credSet, seq []cred, gatedAll, gatedSafe []string) {
	lab.ResetEvents()
	conn := dial(s, svc, 0)
	lab.Quiesce()
	conn.Take()
	cmd := func(l string) string {
		conn.Send([]byte(l + "\r\n"))
		lab.Quiesce()
		c.Count("transitions", 1)
		return string(conn.Take())
	}
	desc := func() string { return fmt.Sprintf("ftp credentials=%v attempts=%v", set.creds, seq) }
	loggedIn := false
	probe := func(stage string) {
		list := gatedAll
		if loggedIn {
			list = gatedSafe
		}
		for _, g := range list {
			if conn.Closed() {
				return
			}
			r := cmd(g)
			if !loggedIn && !strings.HasPrefix(r, "530") {
				c.Violationf("C12:ftp:gate-open:"+strings.Fields(g)[0], "%s: %q %s was answered %q; commands that require authentication must be refused with 530 until a login succeeded", desc(), g, stage, trunc(r, 80))
			}
			c.Class(fmt.Sprintf("ftp %s loggedIn=%v reply=%s", strings.Fields(g)[0], loggedIn, trunc(r, 3)))
		}
	}
	probe("before the first attempt")
	for i, a := range seq {
		r1 := cmd("USER " + a.u)
		r2 := cmd("PASS " + a.p)
		ok := strings.HasPrefix(r2, "230")
		want := set.has(a)
		if ok != want {
			kind := "accepted-wrong"
			if want {
				kind = "rejected-right"
			}
			c.Violationf("C12:ftp:"+kind, "%s: attempt #%d %v answered %q / %q, reference says success=%v", desc(), i, a, trunc(r1, 40), trunc(r2, 60), want)
		}
		if ok {
			loggedIn = true
		}
		if !loggedIn {
			probe(fmt.Sprintf("after failed attempt #%d", i))
		}
	}
	if loggedIn {
		probe("after login")
	}
	conn.CloseWrite()
	settleConn(conn)
	c.Count("executions", 1)
	var got, want []string
	for _, ev := range eventsOf(0) {
		l := lab.Str(ev, "ftp.command")
		if strings.HasPrefix(l, "USER ") || strings.HasPrefix(l, "PASS ") {
			got = append(got, l)
		}
	}
	for _, a := range seq {
		want = append(want, "USER "+a.u, "PASS "+a.p)
	}
	if strings.Join(got, "|") != strings.Join(want, "|") {
		c.Violationf("C12:ftp:auth-events", "%s: recorded %q, expected %q", desc(), got, want)
	}
}

// inst rewrites selected honeytrap source files for the fine-grain cooperative
// scheduler and writes a `go build -overlay` file. It works on the CURRENT
// sources of the repository given with -repo (nothing is written there):
//
//   - a call verifsched.Yield(site) is inserted before every statement that
//     contains a channel send/receive, a select, a go statement or a range over a
//     channel;
//   - x.Lock()/Unlock()/RLock()/RUnlock() on a sync.Mutex / sync.RWMutex become
//     verifsched.Lock(&x, site) / verifsched.Unlock(&x) ... (also when deferred);
//   - every statement that reads or writes a map held in one of the configured
//     struct fields is preceded by verifsched.Access(&field, isWrite, site);
//   - configured functions get verifsched.Enter(name, tag) as first statement.
//
// usage: inst -repo /repo -out DIR     (prints the overlay path)
package main

import (
	"bytes"
	"encoding/json"
	"flag"
	"fmt"
	"go/ast"
	"go/format"
	"go/parser"
	"go/token"
	"go/types"
	"os"
	"path/filepath"
	"strings"

	"golang.org/x/tools/go/packages"
)

type target struct {
	Pkg        string            // package pattern relative to the repo
	Files      []string          // base names to instrument
	Maps       []string          // struct field names holding maps to watch
	Objs       []string          // struct field names holding objects whose method calls are accesses (all treated as writes except Avail/Len)
	LocksOnly  []string          // base names in which only Lock/Unlock calls are rewritten (no yields)
	CrashAfter map[string]string // function name -> site: its final `return expr` becomes `r := expr; CrashPoint(site); return r`
	SyncObjs   []string          // struct field names holding concurrency-safe objects (sync.Map): a scheduling point before each method call, no race oracle
	Entry      map[string]string // function name ("Handle" or "(*T).Handle") -> tag expression
}

var targets = []target{
	{Pkg: "./listener/agent", Files: []string{"connection.go", "agent.go", "connections.go"}},
	{Pkg: "./pushers/file", Files: []string{"file.go"}},
	{Pkg: "./services", Files: []string{"tftp.go", "limiter.go"}, Maps: []string{"buffers"}, SyncObjs: []string{"m"}, Entry: map[string]string{"(*tftpService).Handle": "conn.RemoteAddr().String()"}},
	{Pkg: "./storage", Files: []string{"storage.go"}, CrashAfter: map[string]string{"(*badgeStorage).Set": "storage.Set"}},
	{Pkg: "./listener/canary", Files: []string{"socket.go", "state.go", "canary_linux.go"}, LocksOnly: []string{"state.go", "canary_linux.go"}, Objs: []string{"rbuffer"}},
}

const schedPath = "github.com/honeytrap/honeytrap/verifsched"

type rewriter struct {
	fset      *token.FileSet
	info      *types.Info
	file      string
	maps      map[string]bool
	objs      map[string]bool
	syncObjs  map[string]bool
	locksOnly bool
	n         int
	funcs     map[string]string
}

func (r *rewriter) site(pos token.Pos) string {
	p := r.fset.Position(pos)
	return fmt.Sprintf("%s:%d", filepath.Base(p.Filename), p.Line)
}

func call(fn string, args ...ast.Expr) *ast.CallExpr {
	return &ast.CallExpr{Fun: &ast.SelectorExpr{X: ast.NewIdent("verifsched"), Sel: ast.NewIdent(fn)}, Args: args}
}

func lit(s string) ast.Expr { return &ast.BasicLit{Kind: token.STRING, Value: fmt.Sprintf("%q", s)} }

// syncMethod reports whether c is x.Lock() etc. on a sync.Mutex/RWMutex reached directly, and returns a pointer expression to it.
func (r *rewriter) syncMethod(c *ast.CallExpr) (name string, ptr ast.Expr, ok bool) {
	sel, isSel := c.Fun.(*ast.SelectorExpr)
	if !isSel || len(c.Args) != 0 {
		return
	}
	switch sel.Sel.Name {
	case "Lock", "Unlock", "RLock", "RUnlock":
	default:
		return
	}
	s := r.info.Selections[sel]
	if s == nil || s.Kind() != types.MethodVal || len(s.Index()) != 1 {
		return
	}
	recv := s.Recv()
	isPtr := false
	if p, okp := recv.(*types.Pointer); okp {
		recv = p.Elem()
		isPtr = true
	}
	named, okn := recv.(*types.Named)
	if !okn || named.Obj().Pkg() == nil || named.Obj().Pkg().Path() != "sync" {
		return
	}
	if n := named.Obj().Name(); n != "Mutex" && n != "RWMutex" {
		return
	}
	if isPtr {
		return sel.Sel.Name, sel.X, true
	}
	return sel.Sel.Name, &ast.UnaryExpr{Op: token.AND, X: sel.X}, true
}

// scan looks into a simple statement / expression (not into nested function literals or blocks).
type found struct {
	chanOp   bool
	lockCall *ast.CallExpr
	mapExprs []ast.Expr
	mapWrite bool
	objExprs []ast.Expr
	objWrite bool
}

// isSyncMap: the expression has type sync.Map (so that a mutex field of the same name is not taken for one).
func (r *rewriter) isSyncMap(e ast.Expr) bool {
	t := r.info.TypeOf(e)
	if t == nil {
		return false
	}
	if p, ok := t.(*types.Pointer); ok {
		t = p.Elem()
	}
	n, ok := t.(*types.Named)
	return ok && n.Obj().Pkg() != nil && n.Obj().Pkg().Path() == "sync" && n.Obj().Name() == "Map"
}

func (r *rewriter) isWatchedMap(e ast.Expr) bool {
	sel, ok := e.(*ast.SelectorExpr)
	if !ok || !r.maps[sel.Sel.Name] {
		return false
	}
	t := r.info.TypeOf(e)
	if t == nil {
		return false
	}
	_, isMap := t.Underlying().(*types.Map)
	return isMap
}

func (r *rewriter) scan(n ast.Node, f *found) {
	ast.Inspect(n, func(x ast.Node) bool {
		switch v := x.(type) {
		case *ast.FuncLit, *ast.BlockStmt:
			return false
		case *ast.UnaryExpr:
			if v.Op == token.ARROW {
				f.chanOp = true
			}
		case *ast.SendStmt:
			f.chanOp = true
		case *ast.IndexExpr:
			if r.isWatchedMap(v.X) {
				f.mapExprs = append(f.mapExprs, v.X)
			}
		case *ast.CallExpr:
			if m, ok := v.Fun.(*ast.SelectorExpr); ok {
				if fld, ok := m.X.(*ast.SelectorExpr); ok && r.syncObjs[fld.Sel.Name] && r.isSyncMap(m.X) {
					f.chanOp = true
				}
				if fld, ok := m.X.(*ast.SelectorExpr); ok && r.objs[fld.Sel.Name] {
					f.objExprs = append(f.objExprs, m.X)
					if m.Sel.Name != "Avail" && m.Sel.Name != "Len" {
						f.objWrite = true
					}
				}
			}
			if id, ok := v.Fun.(*ast.Ident); ok && id.Name == "delete" && len(v.Args) == 2 && r.isWatchedMap(v.Args[0]) {
				f.mapExprs = append(f.mapExprs, v.Args[0])
				f.mapWrite = true
			}
			if id, ok := v.Fun.(*ast.Ident); ok && id.Name == "len" && len(v.Args) == 1 && r.isWatchedMap(v.Args[0]) {
				f.mapExprs = append(f.mapExprs, v.Args[0])
			}
		}
		return true
	})
}

// before returns the statements to insert before s (and possibly a replacement for s).
func (r *rewriter) before(s ast.Stmt) (pre []ast.Stmt, repl ast.Stmt) {
	repl = s
	var f found
	switch v := s.(type) {
	case *ast.SelectStmt:
		f.chanOp = true
	case *ast.GoStmt:
		f.chanOp = true
	case *ast.RangeStmt:
		if t := r.info.TypeOf(v.X); t != nil {
			if _, ok := t.Underlying().(*types.Chan); ok {
				f.chanOp = true
			}
		}
		if r.isWatchedMap(v.X) {
			f.mapExprs = append(f.mapExprs, v.X)
		}
	case *ast.ExprStmt:
		if c, ok := v.X.(*ast.CallExpr); ok {
			if name, ptr, ok := r.syncMethod(c); ok {
				r.n++
				if name == "Lock" || name == "RLock" {
					return nil, &ast.ExprStmt{X: call(name, ptr, lit(r.site(s.Pos())))}
				}
				return nil, &ast.ExprStmt{X: call(name, ptr)}
			}
		}
		r.scan(v.X, &f)
	case *ast.DeferStmt:
		if name, ptr, ok := r.syncMethod(v.Call); ok && (name == "Unlock" || name == "RUnlock") {
			r.n++
			return nil, &ast.DeferStmt{Call: call(name, ptr)}
		}
		return nil, s
	case *ast.AssignStmt:
		for _, l := range v.Lhs {
			if ix, ok := l.(*ast.IndexExpr); ok && r.isWatchedMap(ix.X) {
				f.mapWrite = true
			}
		}
		r.scan(v, &f)
	case *ast.IncDecStmt, *ast.ReturnStmt, *ast.SendStmt:
		r.scan(s, &f)
	case *ast.IfStmt:
		if v.Init != nil {
			r.scan(v.Init, &f)
		}
		r.scan(v.Cond, &f)
	case *ast.SwitchStmt:
		if v.Init != nil {
			r.scan(v.Init, &f)
		}
		if v.Tag != nil {
			r.scan(v.Tag, &f)
		}
	case *ast.ForStmt:
		if v.Cond != nil {
			r.scan(v.Cond, &f)
		}
	}
	if r.locksOnly {
		return nil, s
	}
	if f.chanOp {
		r.n++
		pre = append(pre, &ast.ExprStmt{X: call("Yield", lit(r.site(s.Pos())))})
	}
	seen := map[string]bool{}
	for _, m := range f.mapExprs {
		var b bytes.Buffer
		format.Node(&b, r.fset, m)
		if seen[b.String()] {
			continue
		}
		seen[b.String()] = true
		r.n++
		w := "false"
		if f.mapWrite {
			w = "true"
		}
		pre = append(pre, &ast.ExprStmt{X: call("Access", &ast.UnaryExpr{Op: token.AND, X: m}, ast.NewIdent(w), lit(r.site(s.Pos())))})
	}
	for _, m := range f.objExprs {
		var b bytes.Buffer
		format.Node(&b, r.fset, m)
		if seen[b.String()] {
			continue
		}
		seen[b.String()] = true
		r.n++
		w := "false"
		if f.objWrite {
			w = "true"
		}
		// the field holds a pointer: its value identifies the shared object
		pre = append(pre, &ast.ExprStmt{X: call("Access", m, ast.NewIdent(w), lit(r.site(s.Pos())))})
	}
	return
}

func (r *rewriter) list(stmts []ast.Stmt) []ast.Stmt {
	var out []ast.Stmt
	for _, s := range stmts {
		r.walk(s)
		pre, repl := r.before(s)
		out = append(out, pre...)
		out = append(out, repl)
	}
	return out
}

// walk rewrites nested statement lists (including function literals) inside s.
func (r *rewriter) walk(n ast.Node) {
	ast.Inspect(n, func(x ast.Node) bool {
		switch v := x.(type) {
		case *ast.BlockStmt:
			v.List = r.list(v.List)
			return false
		case *ast.CaseClause:
			v.Body = r.list(v.Body)
			return false
		case *ast.CommClause:
			v.Body = r.list(v.Body)
			return false
		}
		return true
	})
}

func funcName(fd *ast.FuncDecl) string {
	if fd.Recv == nil || len(fd.Recv.List) == 0 {
		return fd.Name.Name
	}
	var b bytes.Buffer
	format.Node(&b, token.NewFileSet(), fd.Recv.List[0].Type)
	return "(" + b.String() + ")." + fd.Name.Name
}

func main() {
	repo := flag.String("repo", "/repo", "repository root")
	out := flag.String("out", "", "output directory")
	flag.Parse()
	if *out == "" {
		fmt.Fprintln(os.Stderr, "need -out")
		os.Exit(2)
	}
	os.MkdirAll(*out, 0755)
	overlay := map[string]string{}
	// the runtime package, added to the honeytrap module
	self, _ := os.Executable()
	rt := filepath.Join(filepath.Dir(self), "runtime", "sched.go")
	if _, err := os.Stat(rt); err != nil {
		rt = filepath.Join(os.Getenv("VF_INST_SRC"), "runtime", "sched.go")
	}
	rtSrc, err := os.ReadFile(rt)
	if err != nil {
		fmt.Fprintln(os.Stderr, "runtime source:", err)
		os.Exit(2)
	}
	rtOut := filepath.Join(*out, "verifsched_sched.go")
	os.WriteFile(rtOut, rtSrc, 0644)
	overlay[filepath.Join(*repo, "verifsched", "sched.go")] = rtOut

	total := 0
	for _, t := range targets {
		cfg := &packages.Config{Mode: packages.NeedName | packages.NeedFiles | packages.NeedCompiledGoFiles | packages.NeedSyntax | packages.NeedTypes | packages.NeedTypesInfo | packages.NeedImports | packages.NeedDeps,
			Dir: *repo, ParseFile: func(fset *token.FileSet, filename string, src []byte) (*ast.File, error) {
				return parser.ParseFile(fset, filename, src, parser.ParseComments)
			}}
		pkgs, err := packages.Load(cfg, t.Pkg)
		if err != nil || len(pkgs) != 1 || len(pkgs[0].Errors) > 0 {
			fmt.Fprintln(os.Stderr, "load", t.Pkg, err, pkgs)
			os.Exit(2)
		}
		p := pkgs[0]
		want := map[string]bool{}
		for _, f := range t.Files {
			want[f] = true
		}
		for i, af := range p.Syntax {
			fn := p.CompiledGoFiles[i]
			if !want[filepath.Base(fn)] {
				continue
			}
			r := &rewriter{fset: p.Fset, info: p.TypesInfo, file: fn, maps: map[string]bool{}, funcs: t.Entry}
			for _, m := range t.Maps {
				r.maps[m] = true
			}
			for _, lo := range t.LocksOnly {
				if lo == filepath.Base(fn) {
					r.locksOnly = true
				}
			}
			r.syncObjs = map[string]bool{}
			for _, m := range t.SyncObjs {
				r.syncObjs[m] = true
			}
			r.objs = map[string]bool{}
			for _, m := range t.Objs {
				r.objs[m] = true
			}
			for _, d := range af.Decls {
				fd, ok := d.(*ast.FuncDecl)
				if !ok || fd.Body == nil {
					continue
				}
				fd.Body.List = r.list(fd.Body.List)
				if site, ok := t.CrashAfter[funcName(fd)]; ok && len(fd.Body.List) > 0 {
					if ret, ok := fd.Body.List[len(fd.Body.List)-1].(*ast.ReturnStmt); ok && len(ret.Results) == 1 {
						tmp := ast.NewIdent("verifResult__")
						assign := &ast.AssignStmt{Lhs: []ast.Expr{tmp}, Tok: token.DEFINE, Rhs: []ast.Expr{ret.Results[0]}}
						crash := &ast.ExprStmt{X: call("CrashPoint", lit(site))}
						fd.Body.List = append(fd.Body.List[:len(fd.Body.List)-1], assign, crash, &ast.ReturnStmt{Results: []ast.Expr{tmp}})
						r.n++
					}
				}
				if tag, ok := t.Entry[funcName(fd)]; ok {
					te, err := parser.ParseExpr(tag)
					if err != nil {
						fmt.Fprintln(os.Stderr, "tag expr:", err)
						os.Exit(2)
					}
					fd.Body.List = append([]ast.Stmt{&ast.ExprStmt{X: call("Enter", lit(funcName(fd)), te)}}, fd.Body.List...)
					r.n++
				}
			}
			if r.n == 0 {
				continue
			}
			var b bytes.Buffer
			if err := format.Node(&b, p.Fset, af); err != nil {
				fmt.Fprintln(os.Stderr, "format", fn, err)
				os.Exit(2)
			}
			// add the import textually, right after the package clause (keeps build constraints and comments in place)
			src := b.String()
			pk := "\npackage " + af.Name.Name + "\n"
			if strings.HasPrefix(src, "package "+af.Name.Name+"\n") {
				src = "\n" + src
			}
			ix := strings.Index(src, pk)
			if ix < 0 {
				fmt.Fprintln(os.Stderr, "no package clause found in", fn)
				os.Exit(2)
			}
			src = src[:ix+len(pk)] + "\nimport verifsched \"" + schedPath + "\"\n" + src[ix+len(pk):]
			b.Reset()
			b.WriteString(src)
			rel, _ := filepath.Rel(*repo, fn)
			o := filepath.Join(*out, strings.ReplaceAll(rel, "/", "__"))
			os.WriteFile(o, b.Bytes(), 0644)
			overlay[fn] = o
			total += r.n
			fmt.Fprintf(os.Stderr, "instrumented %s: %d points\n", rel, r.n)
		}
	}
	ov, _ := json.MarshalIndent(map[string]interface{}{"Replace": overlay}, "", " ")
	ovPath := filepath.Join(*out, "overlay.json")
	os.WriteFile(ovPath, ov, 0644)
	fmt.Println(ovPath)
	fmt.Fprintf(os.Stderr, "%d points in total\n", total)
}

package props

import (
	"context"
	"fmt"
	"net"
	"syscall"
	"time"

	"verif/h/core"
	"verif/h/lab"
)

// C02 — no frame on the wire can terminate the raw (canary) listener.
//
// Part A (bubble): the field-boundary product of frames is injected through
// the real ethernet.Parse -> ipv4.Parse -> handleTCP/UDP/ICMP/ARP dispatch; a
// panic on that path is what kills the receive loop (it has no recover). After
// every batch a well-formed UDP probe to an undecoded port must still yield its
// event. Part B ("C02/loop", real clock): the same frame classes and the
// connection-attempt floods are written to the socketpair of the real Start()
// loop in this very process; the worker dying is the violation.

func init() {
	register("C02", driver{run: runC02, needsStorage: false})
	register("C02/loop", driver{run: runC02Loop, noBubble: true})
}

type frameCase struct {
	class string
	desc  string
	frame []byte
}

func c02Probe(c *core.Ctx, l *canaryLab, after string) {
	l.takeEvents()
	if p, w := l.inject(frameUDP(clientIP(250), 4000, 9, []byte("probe"))); p != "" {
		c.Violationf("C02:probe-panic:"+w, "after %s the well-formed probe itself panicked: %s", after, p)
		return
	}
	lab.Quiesce()
	for _, e := range l.takeEvents() {
		if lab.Str(e, "category") == "udp" && lab.Str(e, "payload") == "probe" {
			return
		}
	}
	c.Violationf("C02:probe-lost", "after %s a well-formed UDP probe to an undecoded port yields no event", after)
}

func c02Run(c *core.Ctx, l *canaryLab, fc frameCase) bool {
	c.Mark(fc.class, fc.desc)
	p, w := l.inject(fc.frame)
	c.Count("executions", 1)
	c.Count("transitions", 1)
	if p != "" {
		c.Violationf(fmt.Sprintf("C02:panic:%s:%s", fc.class, w), "%s (%d bytes: %x): the dispatch path of the receive loop panicked: %s at %s", fc.desc, len(fc.frame), clip(fc.frame, 70), p, w)
		return false
	}
	return true
}

func clip(b []byte, n int) []byte {
	if len(b) > n {
		return b[:n]
	}
	return b
}

// c02Frames enumerates the field-boundary product, grouped in classes.
func c02Frames(thorough bool, emit func(group string, fcs []frameCase)) {
	cl := clientIP(1)
	pay := func(n int) []byte {
		b := make([]byte, n)
		for i := range b {
			b[i] = byte(i*7 + 1)
		}
		return b
	}
	syn := func() []byte { return frameTCP(cl, tcpOpts{sport: 40000, dport: 8081, seq: 100, flags: fSYN}, nil) }

	// 1. every truncation of well-formed frames, padded variants up to 1600
	var g []frameCase
	bases := map[string][]byte{
		"tcp-syn":      syn(),
		"tcp-syn-opts": frameTCP(cl, tcpOpts{sport: 40001, dport: 80, seq: 1, flags: fSYN, options: []byte{2, 4, 5, 0xb4, 1, 3, 3, 7, 4, 2, 8, 10, 0, 0, 0, 1, 0, 0, 0, 0}}, nil),
		"tcp-data":     frameTCP(cl, tcpOpts{sport: 40002, dport: 8081, seq: 5, ack: 9, flags: fACK | fPSH}, pay(32)),
		"udp-9":        frameUDP(cl, 4000, 9, pay(20)),
		"udp-53":       frameUDP(cl, 4000, 53, dnsQuery(1, "a.b", 1)),
		"icmp-echo":    frameICMP(cl, 1, 1),
	}
	for _, name := range []string{"tcp-syn", "tcp-syn-opts", "tcp-data", "udp-9", "udp-53", "icmp-echo"} {
		b := bases[name]
		for n := 14; n <= len(b); n++ {
			g = append(g, frameCase{"truncated", fmt.Sprintf("%s frame cut to %d of %d bytes", name, n, len(b)), b[:n]})
		}
		for _, n := range []int{60, 64, 1500, 1514, 1600} {
			if n < len(b) {
				continue
			}
			p := append(append([]byte(nil), b...), make([]byte, n-len(b))...)
			g = append(g, frameCase{"padded", fmt.Sprintf("%s frame padded to %d bytes", name, n), p})
		}
	}
	emit("truncation", g)

	// 2. ethertypes x short payloads
	g = nil
	for _, et := range []uint16{0x0800, 0x0806, 0x86dd, 0x0000, 0x8100} {
		for n := 0; n <= 40; n++ {
			g = append(g, frameCase{"ethertype", fmt.Sprintf("ethertype %#04x with %d payload bytes", et, n), eth(macServer, macClient, et, pay(n))})
		}
		g = append(g, frameCase{"ethertype", fmt.Sprintf("ethertype %#04x with ff payload", et), eth(macServer, macClient, et, []byte{0xff, 0xff, 0xff, 0xff, 0xff, 0xff, 0xff, 0xff, 0xff, 0xff, 0xff, 0xff, 0xff, 0xff, 0xff, 0xff, 0xff, 0xff, 0xff, 0xff, 0xff, 0xff})})
	}
	emit("ethertype", g)

	// 3. IPv4: IHL x total length x protocol x transport payload length
	protos := []byte{1, 2, 6, 17, 0, 255}
	for ihl := 0; ihl <= 15; ihl++ {
		g = nil
		for _, proto := range protos {
			plens := []int{0, 1, 2, 3, 4, 7, 8, 9, 12, 13, 16, 19, 20, 21, 24, 28, 32, 40}
			if thorough {
				plens = nil
				for n := 0; n <= 40; n++ {
					plens = append(plens, n)
				}
				plens = append(plens, 512, 1460, 1580)
			}
			for _, pl := range plens {
				var tp []byte
				switch proto {
				case 6:
					tp = tcpSeg(tcpOpts{sport: 40003, dport: 8081, seq: 1, flags: fSYN}, cl, ipServer, nil)
					tp = append(tp, pay(1600)...)[:pl]
				case 17:
					tp = append(udpDgram(4000, 9, pl, nil), pay(1600)...)
					if pl <= len(tp) {
						tp = tp[:pl]
					}
				default:
					tp = pay(pl)
				}
				actual := 0
				{
					hl := ihl * 4
					if hl < 20 {
						hl = 20
					}
					actual = hl + len(tp)
				}
				for _, tl := range []int{0, 1, 19, 20, 21, ihl*4 - 1, ihl * 4, ihl*4 + 1, actual - 1, actual, actual + 1, 65535} {
					if tl < 0 {
						continue
					}
					f := eth(macServer, macClient, 0x0800, ip4(ipOpts{ihlSet: true, ihl: ihl, proto: proto, src: cl, dst: ipServer, totalLen: tl}, tp))
					g = append(g, frameCase{"ipv4", fmt.Sprintf("IPv4 IHL=%d total-length=%d (actual %d) protocol=%d transport bytes=%d", ihl, tl, actual, proto, len(tp)), f})
				}
			}
		}
		emit(fmt.Sprintf("ipv4/ihl%d", ihl), g)
	}

	// 4. TCP: data offset x segment length; options; flags in three connection states
	g = nil
	for do := 0; do <= 15; do++ {
		for _, sl := range []int{0, 1, 12, 13, 19, 20, 21, 23, 24, 25, 28, 32, 40, 59, 60, 61} {
			seg := tcpSeg(tcpOpts{sport: 40004, dport: 8081, seq: 1, flags: fSYN, dataOff: do}, cl, ipServer, pay(48))
			if sl < len(seg) {
				seg = seg[:sl]
			}
			g = append(g, frameCase{"tcp-dataoffset", fmt.Sprintf("TCP data offset %d, segment of %d bytes", do, len(seg)), eth(macServer, macClient, 0x0800, ip4(ipOpts{proto: 6, src: cl, dst: ipServer, totalLen: -1}, seg))})
		}
	}
	emit("tcp/dataoffset", g)
	optBytes := []byte{0, 1, 2, 3, 4, 5, 8, 254, 255}
	for _, do := range []int{6, 7} {
		g = nil
		for _, a := range optBytes {
			for _, b := range optBytes {
				for _, d := range optBytes {
					opts := []byte{a, b, d, 0, 0, 0, 0, 0}[:(do-5)*4]
					// option bytes sit at the very end of the segment for do=6 and are followed by 4 more for do=7
					seg := tcpSeg(tcpOpts{sport: 40005, dport: 8081, seq: 1, flags: fSYN, dataOff: do, options: opts}, cl, ipServer, nil)
					g = append(g, frameCase{"tcp-options", fmt.Sprintf("TCP data offset %d options % x", do, opts), eth(macServer, macClient, 0x0800, ip4(ipOpts{proto: 6, src: cl, dst: ipServer, totalLen: -1}, seg))})
					// same, segment cut right after 1, 2 or 3 option bytes (option tail missing)
					for cut := 21; cut <= 23; cut++ {
						s2 := append([]byte(nil), seg[:cut]...)
						g = append(g, frameCase{"tcp-options-cut", fmt.Sprintf("TCP data offset %d options % x, segment cut to %d bytes", do, opts, cut), eth(macServer, macClient, 0x0800, ip4(ipOpts{proto: 6, src: cl, dst: ipServer, totalLen: -1}, s2))})
					}
				}
			}
		}
		emit(fmt.Sprintf("tcp/options/do%d", do), g)
	}
	// one-byte option tails with data offset 6: 20 header bytes + 4 option bytes where the last is a kind without length
	g = nil
	for _, k := range optBytes {
		for pos := 0; pos < 4; pos++ {
			o := []byte{1, 1, 1, 1}
			o[pos] = k
			seg := tcpSeg(tcpOpts{sport: 40006, dport: 8081, seq: 1, flags: fSYN, dataOff: 6, options: o}, cl, ipServer, nil)
			g = append(g, frameCase{"tcp-option-tail", fmt.Sprintf("TCP options % x (kind %d as %d-th of 4 option bytes)", o, k, pos+1), eth(macServer, macClient, 0x0800, ip4(ipOpts{proto: 6, src: cl, dst: ipServer, totalLen: -1}, seg))})
		}
	}
	emit("tcp/option-tail", g)

	// 5. UDP length field x ports x payload lengths
	g = nil
	for _, port := range []uint16{53, 123, 161, 162, 1900, 5060, 9} {
		for pl := 0; pl <= 40; pl++ {
			actual := 8 + pl
			for _, lf := range []int{0, 7, 8, actual - 1, actual, actual + 1, 65535} {
				d := udpDgram(4000, port, lf, pay(pl))
				g = append(g, frameCase{"udp-length", fmt.Sprintf("UDP to port %d, length field %d, actual %d", port, lf, actual), eth(macServer, macClient, 0x0800, ip4(ipOpts{proto: 17, src: cl, dst: ipServer, totalLen: -1}, d))})
			}
		}
		for n := 0; n < 8; n++ {
			g = append(g, frameCase{"udp-short", fmt.Sprintf("UDP header of %d bytes to port %d", n, port), eth(macServer, macClient, 0x0800, ip4(ipOpts{proto: 17, src: cl, dst: ipServer, totalLen: -1}, udpDgram(4000, port, -1, nil)[:n]))})
		}
	}
	emit("udp", g)

	// 6. ICMP and ARP
	g = nil
	for n := 0; n <= 12; n++ {
		g = append(g, frameCase{"icmp", fmt.Sprintf("ICMP message of %d bytes", n), eth(macServer, macClient, 0x0800, ip4(ipOpts{proto: 1, src: cl, dst: ipServer, totalLen: -1}, icmpEcho(1, 1, pay(8))[:min(n, 16)]))})
	}
	for n := 0; n <= 40; n++ {
		arp := []byte{0, 1, 8, 0, 6, 4, 0, 1, 2, 0, 0, 0, 0, 1, 10, 1, 0, 1, 0, 0, 0, 0, 0, 0, 127, 0, 0, 1, 0, 0, 0, 0, 0, 0, 0, 0, 0, 0, 0, 0}
		g = append(g, frameCase{"arp", fmt.Sprintf("ARP frame with %d payload bytes", n), eth(macServer, macClient, 0x0806, arp[:n])})
	}
	emit("icmp-arp", g)
}

func allClients() []net.IP {
	var ips []net.IP
	for k := 0; k < 300; k++ {
		ips = append(ips, clientIP(k))
	}
	return ips
}

func runC02(c *core.Ctx) {
	// ---- the frame product on a listener with complete ARP table
	c02Frames(c.Thorough(), func(group string, fcs []frameCase) {
		c.Case("frames/"+group, func() {
			l := newCanaryLab(canaryCfg{arpFor: allClients()})
			l.startKnock()
			for _, fc := range fcs {
				c02Run(c, l, fc)
			}
			lab.Quiesce()
			c02Probe(c, l, "frame group "+group)
			l.close()
			c.Outcome(group, fmt.Sprint(len(fcs)))
			if c.WantSample() {
				c.Sample(map[string]interface{}{"group": group, "frames": len(fcs), "example": fcs[len(fcs)/2].desc})
			}
		})
	})

	// ---- TCP flags 0..63 in three connection states
	for _, st := range []string{"no-state", "syn-received", "established"} {
		st := st
		c.Case("tcp/flags/"+st, func() {
			for fl := 0; fl < 64; fl++ {
				for _, pl := range []int{0, 1, 7} {
					l := newCanaryLabK(canaryCfg{arpFor: allClients()})
					cl := clientIP(2)
					seq := uint32(1000)
					if st != "no-state" {
						l.inject(frameTCP(cl, tcpOpts{sport: 41000, dport: 8081, seq: seq, flags: fSYN}, nil))
						seq++
					}
					var srvSeq uint32
					for _, f := range l.c.VerifDrainTx() {
						srvSeq = decodeTx(f).seq
					}
					if st == "established" {
						l.inject(frameTCP(cl, tcpOpts{sport: 41000, dport: 8081, seq: seq, ack: srvSeq + 1, flags: fACK}, nil))
					}
					p := make([]byte, pl)
					c02Run(c, l, frameCase{"tcp-flags", fmt.Sprintf("TCP flags %#02x with %d payload bytes in state %s", fl, pl, st), frameTCP(cl, tcpOpts{sport: 41000, dport: 8081, seq: seq, ack: srvSeq + 1, flags: byte(fl)}, p)})
					lab.Quiesce()
					if fl%16 == 15 && pl == 7 {
						c02Probe(c, l, fmt.Sprintf("flags up to %#02x in state %s", fl, st))
					}
					l.close()
				}
			}
			c.Outcome("flags", st)
		})
	}

	// ---- ARP cache / route table with and without an entry for the peer x frames that make the listener transmit
	cfgs := []struct {
		name string
		cfg  canaryCfg
	}{
		{"arp entry", canaryCfg{arpFor: []net.IP{clientIP(3)}}},
		{"no arp entry, no route", canaryCfg{}},
		{"no arp entry, route via gateway with arp entry", canaryCfg{routeVia: net.IPv4(10, 0, 0, 254), arpGw: true}},
		{"no arp entry, route via gateway without arp entry", canaryCfg{routeVia: net.IPv4(10, 0, 0, 254), arpGw: false}},
	}
	for _, cf := range cfgs {
		cf := cf
		c.Case("tables/"+cf.name, func() {
			for _, port := range []uint16{8081, 80, 23, 445} {
				l := newCanaryLabK(cf.cfg)
				cl := clientIP(3)
				ok := c02Run(c, l, frameCase{"tables-syn", fmt.Sprintf("SYN to port %d from a peer with configuration: %s", port, cf.name), frameTCP(cl, tcpOpts{sport: 42000, dport: port, seq: 7, flags: fSYN}, nil)})
				var srvSeq uint32
				for _, f := range l.c.VerifDrainTx() {
					srvSeq = decodeTx(f).seq
				}
				if ok {
					c02Run(c, l, frameCase{"tables-ack", "ACK completing the handshake, " + cf.name, frameTCP(cl, tcpOpts{sport: 42000, dport: port, seq: 8, ack: srvSeq + 1, flags: fACK}, nil)})
					c02Run(c, l, frameCase{"tables-data", "data segment, " + cf.name, frameTCP(cl, tcpOpts{sport: 42000, dport: port, seq: 8, ack: srvSeq + 1, flags: fACK | fPSH}, []byte("GET / HTTP/1.0\r\n\r\n"))})
					lab.Quiesce()
					c02Run(c, l, frameCase{"tables-fin", "FIN, " + cf.name, frameTCP(cl, tcpOpts{sport: 42000, dport: port, seq: 26, ack: srvSeq + 1, flags: fACK | fFIN}, nil)})
					lab.Advance(61 * time.Second)
				}
				c02Probe(c, l, "transmit attempts with "+cf.name)
				l.close()
			}
			c.Outcome("tables", cf.name)
		})
	}

	// ---- floods of connection attempts inside 30 s
	floods := []int{1, 1000, 65534, 65535, 65536}
	if c.Thorough() {
		floods = append(floods, 70000)
	}
	for _, n := range floods {
		n := n
		c.Case(fmt.Sprintf("flood/%d", n), func() {
			l := newCanaryLabK(canaryCfg{arpFor: allClients()})
			for i := 0; i < n; i++ {
				ip := clientIP(i / 60000)
				port := uint16(1024 + i%60000)
				if i%256 == 0 {
					core.Tick() // with a full table every attempt scans all 65,535 entries
				}
				if i%4096 == 0 {
					l.c.VerifDrainTx()
				}
				p, w := l.inject(frameTCP(ip, tcpOpts{sport: port, dport: 8081, seq: uint32(i), flags: fSYN}, nil))
				if p != "" {
					c.Violationf("C02:panic:flood:"+w, "SYN flood: the %d-th half-open connection attempt (distinct address/port pairs within 30 s) panicked the receive path: %s at %s", i+1, p, w)
					break
				}
			}
			c.Count("executions", 1)
			c.Count("transitions", int64(n))
			l.c.VerifDrainTx()
			c02Probe(c, l, fmt.Sprintf("a flood of %d connection attempts", n))
			l.close()
			c.Outcome("flood", fmt.Sprint(n))
		})
	}
}

// ------------------------------------------------------------------ real Start() loop

func runC02Loop(c *core.Ctx) {
	send := func(l *canaryLab, frame []byte) {
		for {
			err := syscall.Sendto(l.peerFd, frame, 0, nil)
			if err == syscall.EAGAIN || err == syscall.ENOBUFS {
				time.Sleep(time.Millisecond)
				continue
			}
			return
		}
	}
	probe := func(l *canaryLab, tag string) bool {
		l.takeEvents()
		send(l, frameUDP(clientIP(250), 4000, 9, []byte("probe-"+tag)))
		return waitUntil(60*time.Second, func() bool {
			for _, e := range l.takeEvents() {
				if lab.Str(e, "payload") == "probe-"+tag {
					return true
				}
			}
			return false
		})
	}
	start := func(cfg canaryCfg) *canaryLab {
		l := newCanaryLab(cfg)
		// never cancelled: Close() makes the loop's epoll_wait fail, which the loop answers with log.Fatalf
		if err := l.c.Start(context.Background()); err != nil {
			panic(err)
		}
		return l
	}
	c02Frames(c.Thorough(), func(group string, fcs []frameCase) {
		c.Case("loop/"+group, func() {
			l := start(canaryCfg{arpFor: allClients()})
			for i, fc := range fcs {
				// conformance replay: every 3rd frame of the product (thorough: all) through the real receive loop
				if !c.Thorough() && i%3 != 0 {
					continue
				}
				c.Mark(fc.class, fc.desc)
				send(l, fc.frame)
				c.Count("executions", 1)
				c.Count("traces_validated", 1)
				if i%200 == 0 {
					core.Tick()
				}
			}
			if !probe(l, group) {
				c.Violationf("C02:loop-dead", "real Start() loop: after frame group %s a well-formed UDP probe yields no event within 60 s", group)
			}
			c.Outcome("loop", group)
		})
	})
	for _, n := range []int{65534, 65536} {
		n := n
		c.Case(fmt.Sprintf("loop/flood/%d", n), func() {
			l := start(canaryCfg{arpFor: allClients()})
			for i := 0; i < n; i++ {
				c.Mark("flood", fmt.Sprintf("SYN flood through the real loop, attempt %d of %d", i+1, n))
				send(l, frameTCP(clientIP(i/60000), tcpOpts{sport: uint16(1024 + i%60000), dport: 8081, seq: uint32(i), flags: fSYN}, nil))
				if i%2048 == 0 {
					core.Tick()
					if !probe(l, fmt.Sprint(i)) {
						c.Violationf("C02:loop-dead", "real Start() loop: no probe event within 60 s after %d connection attempts", i)
						return
					}
				}
			}
			c.Count("executions", 1)
			c.Count("traces_validated", 1)
			if !probe(l, "end") {
				c.Violationf("C02:loop-dead", "real Start() loop: no probe event within 60 s after %d connection attempts", n)
			}
			c.Outcome("loop-flood", fmt.Sprint(n))
		})
	}
	for _, cf := range []canaryCfg{{}, {routeVia: net.IPv4(10, 0, 0, 254), arpGw: false}} {
		cf := cf
		c.Case(fmt.Sprintf("loop/tables/%v", cf.routeVia), func() {
			l := start(cf)
			c.Mark("tables", "SYN from a peer without ARP/route entry through the real loop")
			send(l, frameTCP(clientIP(3), tcpOpts{sport: 42000, dport: 8081, seq: 7, flags: fSYN}, nil))
			c.Count("executions", 1)
			c.Count("traces_validated", 1)
			if !probe(l, "tables") {
				c.Violationf("C02:loop-dead", "real Start() loop: no probe event within 60 s after a SYN from a peer without ARP/route entry")
			}
		})
	}
}

package props

import (
	"encoding/hex"
	"fmt"
	"strings"

	"verif/h/lab"
)

// A token is one complete client command/request together with the events the
// service is expected to record for it (canonical strings produced by the
// service's canon function from the fields the client controls). The expected
// events are attached by the generator, so the oracle does not re-parse the
// stream with the same logic as the service.
type token struct {
	name   string
	bytes  []byte
	events []string
	final  bool // ends the session (QUIT, unbind, single-request services)
}

type grammar struct {
	svc    string
	canon  func(e lab.EventMap) string // "" = event not compared (connect banners etc.)
	tokens []token
	// prologue is sent (lock-step) before the enumerated tokens; its events are expected first.
	prologue []token
	oneShot  bool // service serves one request per connection by design
}

func kv(e lab.EventMap, keys ...string) string {
	var p []string
	for _, k := range keys {
		if _, ok := e[k]; ok {
			p = append(p, k+"="+lab.Str(e, k))
		}
	}
	return strings.Join(p, "|")
}

func tok(name, bytes string, events ...string) token {
	return token{name: name, bytes: []byte(bytes), events: events}
}

func hx(s string) string { return hex.EncodeToString([]byte(s)) }

// ---------------------------------------------------------------- ftp

func ftpGrammar() grammar {
	line := func(l string) token { return tok(l, l+"\r\n", "ftp.command="+l) }
	g := grammar{svc: "ftp", canon: func(e lab.EventMap) string { return kv(e, "ftp.command") }}
	g.tokens = []token{
		line("USER anonymous"), line("PASS anonymous"), line("PWD"), line("SYST"), line("NOOP"), line("TYPE I"),
		line("CWD /"), line("XYZZY some arg"), line("MKD"), line("FEAT"),
		tok("PWD-lf", "PWD\n", "ftp.command=PWD"),
	}
	q := line("QUIT")
	q.final = true
	g.tokens = append(g.tokens, q)
	return g
}

// ---------------------------------------------------------------- smtp

func smtpGrammar() grammar {
	in := func(l string) string { return "input|smtp.line=" + l }
	line := func(l string) token { return tok(l, l+"\r\n", in(l)) }
	g := grammar{svc: "smtp", canon: func(e lab.EventMap) string {
		t := lab.Str(e, "type")
		if t == "email" {
			return "email|" + kv(e, "smtp.Subject", "smtp.body")
		}
		return t + "|" + kv(e, "smtp.line")
	}}
	g.prologue = []token{line("EHLO client.example")}
	mail := "Subject: s1\r\nFrom: a@b\r\n\r\nline one\r\n..stuffed\r\nlast\r\n"
	g.tokens = []token{
		line("NOOP"), line("RSET"), line("HELP"), line("VRFY x"),
		tok("MAIL+DATA", "MAIL FROM:<a@b>\r\nRCPT TO:<c@d>\r\nDATA\r\n"+mail+".\r\n",
			in("MAIL FROM:<a@b>"), in("RCPT TO:<c@d>"), in("DATA"), "email|smtp.Subject=s1|smtp.body=line one\n.stuffed\nlast\n"),
		tok("MAIL+BDAT", "MAIL FROM:<a@b>\r\nBDAT 13\r\nSubject: s2\r\nBDAT 11 LAST\r\n\r\nchunk-2\r\n",
			in("MAIL FROM:<a@b>"), in("BDAT 13"), in("BDAT 11 LAST"), "email|smtp.Subject=s2|smtp.body=chunk-2\r\n"),
		tok("MAIL+RSET", "MAIL FROM:<x@y>\r\nRSET\r\n", in("MAIL FROM:<x@y>"), in("RSET")),
	}
	q := line("QUIT")
	q.final = true
	g.tokens = append(g.tokens, q)
	return g
}

// ---------------------------------------------------------------- redis

func redisArray(parts ...string) string {
	var b strings.Builder
	fmt.Fprintf(&b, "*%d\r\n", len(parts))
	for _, p := range parts {
		fmt.Fprintf(&b, "$%d\r\n%s\r\n", len(p), p)
	}
	return b.String()
}

func redisGrammar() grammar {
	g := grammar{svc: "redis", canon: func(e lab.EventMap) string { return kv(e, "redis.command") }}
	cmd := func(parts ...string) token {
		return tok(strings.Join(parts, " "), redisArray(parts...), "redis.command="+parts[0])
	}
	g.tokens = []token{
		cmd("PING"), cmd("SET", "key", "value"), cmd("GET", "key"), cmd("INFO"), cmd("CONFIG", "GET", "dir"), cmd("FLUSHALL"),
		tok("simple-string", "*2\r\n+ECHO\r\n$2\r\nhi\r\n", "redis.command=ECHO"),
		tok("blank-line", "\r\n"),
	}
	return g
}

// ---------------------------------------------------------------- memcached

func memcachedGrammar(udp bool) grammar {
	g := grammar{svc: "memcached", canon: func(e lab.EventMap) string {
		return lab.Str(e, "type") + "|" + kv(e, "memcached.command", "memcached.key", "memcached.flags", "memcached.expire-time", "memcached.bytes", "payload-hex")
	}}
	if udp {
		g.svc = "memcached-udp"
	}
	cmdEv := func(l string) string { return "memcached-command|memcached.command=" + l }
	line := func(l string) token { return tok(l, l+"\r\n", cmdEv(l)) }
	store := func(verb, key, data string) token {
		l := fmt.Sprintf("%s %s 5 60 %d", verb, key, len(data))
		first := data
		if len(first) > 80 {
			first = first[:80]
		}
		return tok(verb+"/"+fmt.Sprint(len(data)), l+"\r\n"+data+"\r\n", cmdEv(l),
			fmt.Sprintf("memcached-%s|memcached.command=%s|memcached.key=%s|memcached.flags=5|memcached.expire-time=60|memcached.bytes=%d|payload-hex=%s", verb, verb, key, len(data), hx(first)))
	}
	g.tokens = []token{
		line("get k"), line("stats"), line("flush_all"), line("version"), line("delete k"),
		store("set", "k", "abc"), store("add", "k2", ""), store("append", "k3", strings.Repeat("0123456789", 9)), store("set", "k4", "line1\r\nline2"),
	}
	return g
}

// ---------------------------------------------------------------- telnet

func telnetGrammar() grammar {
	g := grammar{svc: "telnet", canon: func(e lab.EventMap) string {
		t := lab.Str(e, "type")
		if t == "connect" {
			return ""
		}
		return t + "|" + kv(e, "telnet.username", "telnet.password", "telnet.command")
	}}
	g.prologue = []token{tok("login", "root\r\nhunter2\r\n", "password-authentication|telnet.username=root|telnet.password=hunter2")}
	cmd := func(l, nl string) token { return tok(l+fmt.Sprintf("%q", nl), l+nl, "session|telnet.command="+l) }
	g.tokens = []token{
		cmd("ls -la", "\r\n"), cmd("uname -a", "\n"), cmd("cat /etc/passwd", "\r\n"), cmd("", "\r\n"), cmd("wget http://x/y.sh", "\n"), cmd("x", "\n"),
	}
	return g
}

// ---------------------------------------------------------------- http family

func httpReq(method, target, host string, hdrs []string, body string, chunked bool) string {
	var b strings.Builder
	fmt.Fprintf(&b, "%s %s HTTP/1.1\r\nHost: %s\r\n", method, target, host)
	for _, h := range hdrs {
		b.WriteString(h + "\r\n")
	}
	if chunked {
		b.WriteString("Transfer-Encoding: chunked\r\n\r\n")
		if len(body) > 0 {
			h := len(body) / 2
			if h > 0 {
				fmt.Fprintf(&b, "%x\r\n%s\r\n", h, body[:h])
			}
			fmt.Fprintf(&b, "%x\r\n%s\r\n", len(body)-h, body[h:])
		}
		b.WriteString("0\r\n\r\n")
	} else if body != "" || method == "POST" || method == "PUT" {
		fmt.Fprintf(&b, "Content-Length: %d\r\n\r\n%s", len(body), body)
	} else {
		b.WriteString("\r\n")
	}
	return b.String()
}

func httpGrammar() grammar {
	g := grammar{svc: "http", canon: func(e lab.EventMap) string {
		return kv(e, "http.method", "http.proto", "http.host", "http.url", "payload-hex", "http.header.x-tag")
	}}
	ev := func(m, u, body, tag string) string {
		p := body
		if len(p) > 1024 {
			p = p[:1024]
		}
		s := fmt.Sprintf("http.method=%s|http.proto=HTTP/1.1|http.host=h.example|http.url=%s|payload-hex=%s", m, u, hx(p))
		if tag != "" {
			s += "|http.header.x-tag=[" + tag + "]"
		}
		return s
	}
	big := strings.Repeat("0123456789abcdef", 70) // 1120 bytes
	g.tokens = []token{
		tok("GET /", httpReq("GET", "/", "h.example", nil, "", false), ev("GET", "/", "", "")),
		tok("GET /a?b", httpReq("GET", "/a?b=1", "h.example", []string{"X-Tag: t1"}, "", false), ev("GET", "/a?b=1", "", "t1")),
		tok("POST cl", httpReq("POST", "/p", "h.example", []string{"X-Tag: t2"}, "hello=world", false), ev("POST", "/p", "hello=world", "t2")),
		tok("POST chunked", httpReq("POST", "/c", "h.example", nil, "chunked-body", true), ev("POST", "/c", "chunked-body", "")),
		tok("PUT big", httpReq("PUT", "/big", "h.example", nil, big, false), ev("PUT", "/big", big, "")),
		tok("HEAD", httpReq("HEAD", "/h", "h.example", nil, "", false), ev("HEAD", "/h", "", "")),
		tok("POST empty", httpReq("POST", "/e", "h.example", nil, "", false), ev("POST", "/e", "", "")),
	}
	return g
}

func oneShotHTTP(svc string, canon func(e lab.EventMap) string, toks ...token) grammar {
	for i := range toks {
		toks[i].final = true
	}
	return grammar{svc: svc, canon: canon, tokens: toks, oneShot: true}
}

func httpishGrammars() []grammar {
	var gs []grammar
	gs = append(gs, oneShotHTTP("elasticsearch",
		func(e lab.EventMap) string { return kv(e, "http.method", "http.url", "http.host", "payload-hex") },
		tok("GET cat", httpReq("GET", "/_cat/indices?v", "es", nil, "", false), "http.method=GET|http.url=/_cat/indices?v|http.host=es|payload-hex="),
		tok("POST search", httpReq("POST", "/_search", "es", []string{"Content-Type: application/json"}, `{"query":{"match_all":{}}}`, false), "http.method=POST|http.url=/_search|http.host=es|payload-hex="+hx(`{"query":{"match_all":{}}}`)),
		tok("POST chunked", httpReq("POST", "/idx/_doc", "es", nil, `{"a":1}`, true), "http.method=POST|http.url=/idx/_doc|http.host=es|payload-hex="+hx(`{"a":1}`)),
	))
	gs = append(gs, oneShotHTTP("eos",
		func(e lab.EventMap) string { return kv(e, "eos.method", "http.method", "http.url", "payload-hex") },
		tok("get_info", httpReq("POST", "/v1/chain/get_info", "eos", nil, "{}", false), "eos.method=/v1/chain/get_info|http.method=POST|http.url=/v1/chain/get_info|payload-hex="+hx("{}")),
		tok("wallet", httpReq("POST", "/v1/wallet/list_keys", "eos", nil, `["w","pw"]`, false), "eos.method=/v1/wallet/list_keys|http.method=POST|http.url=/v1/wallet/list_keys|payload-hex="+hx(`["w","pw"]`)),
		tok("get", httpReq("GET", "/v1/chain/get_block", "eos", nil, "", false), "eos.method=/v1/chain/get_block|http.method=GET|http.url=/v1/chain/get_block|payload-hex="),
	))
	rpc := func(m string, id int) string {
		return fmt.Sprintf(`{"jsonrpc":"2.0","method":"%s","params":[],"id":%d}`, m, id)
	}
	gs = append(gs, oneShotHTTP("ethereum",
		func(e lab.EventMap) string {
			return kv(e, "ethereum.method", "ethereum.id", "ethereum.jsonrpc", "http.method", "http.url", "payload-hex")
		},
		tok("eth_blockNumber", httpReq("POST", "/", "eth", []string{"Content-Type: application/json"}, rpc("eth_blockNumber", 7), false), "ethereum.method=eth_blockNumber|ethereum.id=7|ethereum.jsonrpc=2.0|http.method=POST|http.url=/|payload-hex="+hx(rpc("eth_blockNumber", 7))),
		tok("eth_accounts", httpReq("POST", "/", "eth", []string{"Content-Type: application/json"}, rpc("eth_accounts", 1), false), "ethereum.method=eth_accounts|ethereum.id=1|ethereum.jsonrpc=2.0|http.method=POST|http.url=/|payload-hex="+hx(rpc("eth_accounts", 1))),
		tok("unknown-method", httpReq("POST", "/", "eth", []string{"Content-Type: application/json"}, rpc("personal_unlock", 3), true), "ethereum.method=personal_unlock|ethereum.id=3|ethereum.jsonrpc=2.0|http.method=POST|http.url=/|payload-hex="+hx(rpc("personal_unlock", 3))),
	))
	gs = append(gs, oneShotHTTP("docker",
		func(e lab.EventMap) string { return kv(e, "http.method", "http.url", "http.host", "payload-hex") },
		tok("containers", httpReq("GET", "/v1.24/containers/json", "d", nil, "", false), "http.method=GET|http.url=/v1.24/containers/json|http.host=d|payload-hex="),
		tok("create", httpReq("POST", "/containers/create", "d", []string{"Content-Type: application/json"}, `{"Image":"alpine","Cmd":["sh"]}`, false), "http.method=POST|http.url=/containers/create|http.host=d|payload-hex="+hx(`{"Image":"alpine","Cmd":["sh"]}`)),
		tok("version", httpReq("GET", "/version", "d", nil, "", false), "http.method=GET|http.url=/version|http.host=d|payload-hex="),
	))
	soap := `<soap:Envelope xmlns:soap="http://schemas.xmlsoap.org/soap/envelope/" xmlns:cwmp="urn:dslforum-org:cwmp-1-0"><soap:Body><cwmp:GetRPCMethods></cwmp:GetRPCMethods></soap:Body></soap:Envelope>`
	gs = append(gs, oneShotHTTP("cwmp",
		func(e lab.EventMap) string { return kv(e, "http.method", "http.url", "http.body") },
		tok("POST soap", httpReq("POST", "/", "c", []string{"Content-Type: text/xml"}, soap, false), "http.method=POST|http.url=/|http.body="+soap),
		tok("POST other", httpReq("POST", "/acs", "c", []string{"Content-Type: text/xml"}, "<x/>", false), "http.method=POST|http.url=/acs|http.body=<x/>"),
	))
	return gs
}

// ---------------------------------------------------------------- ldap (BER)

func berLen(n int) []byte {
	if n < 128 {
		return []byte{byte(n)}
	}
	if n < 256 {
		return []byte{0x81, byte(n)}
	}
	return []byte{0x82, byte(n >> 8), byte(n)}
}

func berTLV(tag byte, val []byte) []byte {
	return append(append([]byte{tag}, berLen(len(val))...), val...)
}

func berInt(v int) []byte {
	if v >= 0 && v < 128 {
		return berTLV(0x02, []byte{byte(v)})
	}
	return berTLV(0x02, []byte{byte(v >> 8), byte(v)})
}

func berStr(s string) []byte { return berTLV(0x04, []byte(s)) }

func cat(parts ...[]byte) []byte {
	var out []byte
	for _, p := range parts {
		out = append(out, p...)
	}
	return out
}

func ldapMsg(id int, op []byte) []byte { return berTLV(0x30, cat(berInt(id), op)) }

func ldapBind(id int, dn, pw string) []byte {
	return ldapMsg(id, berTLV(0x60, cat(berInt(3), berStr(dn), berTLV(0x80, []byte(pw)))))
}

func ldapSearchPresent(id int, base, attr string) []byte {
	return ldapMsg(id, berTLV(0x63, cat(berStr(base), berTLV(0x0a, []byte{0}), berTLV(0x0a, []byte{0}), berInt(0), berInt(0), berTLV(0x01, []byte{0}), berTLV(0x87, []byte(attr)), berTLV(0x30, nil))))
}

func ldapSearchEq(id int, base, attr, val string) []byte {
	return ldapMsg(id, berTLV(0x63, cat(berStr(base), berTLV(0x0a, []byte{2}), berTLV(0x0a, []byte{0}), berInt(0), berInt(0), berTLV(0x01, []byte{0}), berTLV(0xa3, cat(berStr(attr), berStr(val))), berTLV(0x30, nil))))
}

func ldapDelete(id int, dn string) []byte { return ldapMsg(id, berTLV(0x4a, []byte(dn))) }
func ldapUnbind(id int) []byte            { return ldapMsg(id, berTLV(0x42, nil)) }
func ldapCompare(id int, dn, attr, val string) []byte {
	return ldapMsg(id, berTLV(0x6e, cat(berStr(dn), berTLV(0x30, cat(berStr(attr), berStr(val))))))
}
func ldapAdd(id int, dn string) []byte {
	return ldapMsg(id, berTLV(0x68, cat(berStr(dn), berTLV(0x30, berTLV(0x30, cat(berStr("cn"), berTLV(0x31, berStr("x"))))))))
}
func ldapModifyDN(id int, dn, newrdn string) []byte {
	return ldapMsg(id, berTLV(0x6c, cat(berStr(dn), berStr(newrdn), berTLV(0x01, []byte{0xff}))))
}
func ldapModify(id int, dn string) []byte {
	return ldapMsg(id, berTLV(0x66, cat(berStr(dn), berTLV(0x30, berTLV(0x30, cat(berTLV(0x0a, []byte{2}), berTLV(0x30, cat(berStr("sn"), berTLV(0x31, berStr("y"))))))))))
}
func ldapExtended(id int, oid string) []byte {
	return ldapMsg(id, berTLV(0x77, berTLV(0x80, []byte(oid))))
}

func ldapGrammar() grammar {
	g := grammar{svc: "ldap", canon: func(e lab.EventMap) string {
		return kv(e, "ldap.request-type", "ldap.message-id", "ldap.username", "ldap.password", "ldap.search-basedn", "ldap.search-filter", "ldap.search-filtervalue")
	}}
	bt := func(name string, b []byte, ev string) token { return token{name: name, bytes: b, events: []string{ev}} }
	g.tokens = []token{
		bt("bind root", ldapBind(1, "cn=root,dc=x", "root"), "ldap.request-type=bind|ldap.message-id=1|ldap.username=root|ldap.password=root"),
		bt("bind bad", ldapBind(2, "cn=admin", "nope"), "ldap.request-type=bind|ldap.message-id=2|ldap.username=admin|ldap.password=nope"),
		bt("bind anon", ldapBind(3, "", ""), "ldap.request-type=bind|ldap.message-id=3|ldap.username=|ldap.password="),
		bt("search dse", ldapSearchPresent(4, "", "objectClass"), "ldap.request-type=search|ldap.message-id=4|ldap.search-basedn=|ldap.search-filter=|ldap.search-filtervalue=*"),
		bt("search uid", ldapSearchEq(5, "dc=x", "uid", "bob"), "ldap.request-type=search|ldap.message-id=5|ldap.search-basedn=dc=x|ldap.search-filter=uid|ldap.search-filtervalue=bob"),
		bt("delete", ldapDelete(6, "cn=x,dc=x"), "ldap.request-type=delete|ldap.message-id=6"),
		bt("compare", ldapCompare(7, "cn=x", "sn", "v"), "ldap.request-type=compare|ldap.message-id=7"),
	}
	u := bt("unbind", ldapUnbind(9), "ldap.request-type=unbind|ldap.message-id=9")
	u.final = true
	g.tokens = append(g.tokens, u)
	return g
}

// ---------------------------------------------------------------- UDP grammars (one datagram = one token)

func dnsQuery(id int, name string, qtype int) []byte {
	b := []byte{byte(id >> 8), byte(id), 0x01, 0x00, 0, 1, 0, 0, 0, 0, 0, 0}
	for _, l := range strings.Split(name, ".") {
		if l == "" {
			continue
		}
		b = append(b, byte(len(l)))
		b = append(b, l...)
	}
	return append(b, 0, byte(qtype>>8), byte(qtype), 0, 1)
}

func udpGrammars() []grammar {
	var gs []grammar
	bt := func(name string, b []byte, evs ...string) token { return token{name: name, bytes: b, events: evs} }
	gs = append(gs, grammar{svc: "dns", canon: func(e lab.EventMap) string { return kv(e, "dns.id", "dns.opcode", "dns.questions") },
		tokens: []token{
			bt("A example.com", dnsQuery(0x1234, "example.com", 1), "dns.id=4660|dns.opcode=0|dns.questions=[{example.com. 1 1}]"),
			bt("TXT x.y.z", dnsQuery(7, "x.y.z", 16), "dns.id=7|dns.opcode=0|dns.questions=[{x.y.z. 16 1}]"),
			bt("ANY .", dnsQuery(65535, "", 255), "dns.id=65535|dns.opcode=0|dns.questions=[{. 255 1}]"),
		}})
	gs = append(gs, grammar{svc: "tftp", canon: func(e lab.EventMap) string {
		return lab.Str(e, "type") + "|" + kv(e, "tftp.filename", "tftp.mode", "tftp.file-hex")
	},
		tokens: []token{
			bt("RRQ", []byte("\x00\x01boot.cfg\x00octet\x00"), "tftp-read|tftp.filename=boot.cfg\x00|tftp.mode=octet\x00"),
			bt("WRQ", []byte("\x00\x02up.bin\x00netascii\x00"), "tftp-write|tftp.filename=up.bin\x00|tftp.mode=netascii\x00"),
			bt("RRQ2", []byte("\x00\x01a\x00mail\x00"), "tftp-read|tftp.filename=a\x00|tftp.mode=mail\x00"),
		}})
	snmpGet := func(pdu byte, community string, reqid byte) []byte {
		vb := berTLV(0x30, berTLV(0x30, cat(berTLV(0x06, []byte{0x2b, 6, 1, 2, 1, 1, 1, 0}), berTLV(0x05, nil))))
		p := berTLV(pdu, cat(berTLV(0x02, []byte{1, 2, 3, reqid}), berInt(0), berInt(0), vb))
		return berTLV(0x30, cat(berInt(0), berStr(community), p))
	}
	gs = append(gs, grammar{svc: "snmp", canon: func(e lab.EventMap) string {
		return lab.Str(e, "type") + "|" + kv(e, "snmp.community", "snmp.oids", "snmp.version")
	},
		tokens: []token{
			bt("get public", snmpGet(0xa0, "public", 1), "get-request|snmp.community=public|snmp.oids=.1.3.6.1.2.1.1.1.0|snmp.version=0"),
			bt("getnext private", snmpGet(0xa1, "private", 2), "get-next-request|snmp.community=private|snmp.oids=.1.3.6.1.2.1.1.1.0|snmp.version=0"),
			bt("set x", snmpGet(0xa3, "x", 3), "set-request|snmp.community=x|snmp.oids=.1.3.6.1.2.1.1.1.0|snmp.version=0"),
		}})
	mg := memcachedGrammar(true)
	var mt []token
	for i, t := range mg.tokens {
		hdr := []byte{0, byte(i + 1), 0, 0, 0, 1, 0, 0}
		mt = append(mt, token{name: t.name, bytes: append(hdr, t.bytes...), events: t.events})
	}
	// multi-command datagram
	mt = append(mt, token{name: "get+stats", bytes: append([]byte{0, 99, 0, 0, 0, 1, 0, 0}, "get a\r\nstats\r\n"...),
		events: []string{"memcached-command|memcached.command=get a", "memcached-command|memcached.command=stats"}})
	mg.tokens = mt
	gs = append(gs, mg)
	gs = append(gs, grammar{svc: "counterstrike", canon: func(e lab.EventMap) string {
		return kv(e, "counterstrike.query", "payload-hex")
	},
		tokens: []token{
			bt("a2s_info", []byte("\xff\xff\xff\xffTSource Engine Query\x00"), "counterstrike.query=a2s_info|payload-hex="+hx("\xff\xff\xff\xffTSource Engine Query\x00")),
			bt("a2s_player", []byte("\xff\xff\xff\xffU\xff\xff\xff\xff"), "counterstrike.query=a2s_player|payload-hex="+hx("\xff\xff\xff\xffU\xff\xff\xff\xff")),
			bt("a2s_rules", []byte("\xff\xff\xff\xffV\x01\x02\x03\x04"), "counterstrike.query=a2s_rules|payload-hex="+hx("\xff\xff\xff\xffV\x01\x02\x03\x04")),
		}})
	gs = append(gs, grammar{svc: "echo", canon: func(e lab.EventMap) string { return kv(e, "payload-hex") },
		tokens: []token{
			bt("hello", []byte("hello"), "payload-hex="+hx("hello")),
			bt("bin", []byte{0, 0xff, 10, 13}, "payload-hex=00ff0a0d"),
		}})
	return gs
}

package props

import (
	"bytes"
	"fmt"
	"net"
	"strings"
	"time"

	"verif/h/core"
	"verif/h/lab"
)

// C14 — raw-listener TCP handshake, acknowledgements and checksums hold for
// all sequence numbers. The client side is an independent RFC 793 client and
// frame codec in the harness; frames are injected through the real handleTCP,
// emitted frames are drained from the real transmit ring after every step.

func init() { register("C14", driver{run: runC14}) }

type c14Conn struct {
	ip     net.IP
	sport  uint16
	dport  uint16
	isn    uint32
	stream []byte
	segs   []int  // segment lengths (sum = len(stream))
	pshAll bool   // PSH on every segment (else only on the last)
	tail   string // after the FIN: "" = acknowledge the listener's FIN, "rst" = reset, "none" = nothing
	frames []c14F // client frames in order
}

type c14F struct {
	kind  string // syn ack data fin
	frame []byte
	recvd uint32 // bytes of stream delivered once this frame is processed
	fin   bool
	push  bool
}

func (cn *c14Conn) id() string {
	return fmt.Sprintf("%s:%d>%d isn=%d", cn.ip, cn.sport, cn.dport, cn.isn)
}

func c14Stream(dport uint16, n int) []byte {
	var head []byte
	switch dport {
	case 80, 9200:
		head = []byte("GET /index.html HTTP/1.1\r\nHost: sensor\r\nUser-Agent: c14\r\n\r\n")
	case 443:
		head = []byte{0x16, 0x03, 0x01, 0x00, 0x05, 0x01, 0x00, 0x00, 0x01, 0x00}
	}
	b := make([]byte, 0, n)
	b = append(b, head...)
	for len(b) < n {
		b = append(b, byte('a'+len(b)%26))
	}
	return b[:n]
}

// build derives the client's frames; serverISN is filled in when the SYN-ACK is seen.
func (cn *c14Conn) clientFrame(kind string, off int, payload []byte, srvNext uint32, push bool) []byte {
	seq := cn.isn
	fl := byte(0)
	switch kind {
	case "syn":
		fl = fSYN
	case "ack":
		seq = cn.isn + 1
		fl = fACK
	case "data":
		seq = cn.isn + 1 + uint32(off)
		fl = fACK
		if push {
			fl |= fPSH
		}
	case "fin":
		seq = cn.isn + 1 + uint32(off)
		fl = fACK | fFIN
	case "lastack":
		seq = cn.isn + 2 + uint32(off)
		fl = fACK
	case "rst":
		seq = cn.isn + 2 + uint32(off)
		fl = fRST | fACK
	}
	return frameTCP(cn.ip, tcpOpts{sport: cn.sport, dport: cn.dport, seq: seq, ack: srvNext, flags: fl}, payload)
}

type c14Run struct {
	c        *core.Ctx
	l        *canaryLab
	conns    []*c14Conn
	srvISN   map[string]uint32 // by conn id: seq of the SYN-ACK
	haveSyn  map[string]bool
	step     map[string]int
	off      map[string]int
	recvd    map[string]uint32
	finSent  map[string]bool
	trace    map[string][]string // canonical tx frames per connection
	problems []string
	sigs     []string
	firstPSH map[string]int
	srvNext  map[string]uint32 // highest sequence number the server has used + 1, as seen by the client
}

func (r *c14Run) fail(sig, format string, a ...interface{}) {
	r.sigs = append(r.sigs, sig)
	r.problems = append(r.problems, fmt.Sprintf(format, a...))
}

// drain validates every emitted frame and attributes it to its connection.
func (r *c14Run) drain(after string) {
	loMAC := net.HardwareAddr{0, 0, 0, 0, 0, 0}
	for _, raw := range r.l.c.VerifDrainTx() {
		f := decodeTx(raw)
		if f.err != "" {
			r.fail("C14:frame-malformed", "after %s: emitted frame does not decode: %s (%x)", after, f.err, clip(raw, 60))
			continue
		}
		var cn *c14Conn
		for _, x := range r.conns {
			if x.ip.Equal(f.ipDst) && x.sport == f.dport && x.dport == f.sport {
				cn = x
			}
		}
		if cn == nil {
			r.fail("C14:frame-misaddressed", "after %s: emitted frame %s is addressed to nobody who sent anything", after, f)
			continue
		}
		id := cn.id()
		if !f.ipSrc.Equal(ipServer) || !bytes.Equal(f.ethDst, macClient) || f.etype != 0x0800 || (len(f.ethSrc) == 6 && !bytes.Equal(f.ethSrc, loMAC) && false) {
			r.fail("C14:frame-misaddressed", "after %s: frame for %s has eth dst %s / ip src %s", after, id, f.ethDst, f.ipSrc)
		}
		if !f.ipSumOK {
			r.fail("C14:ip-checksum", "after %s: frame for %s has a wrong IPv4 header checksum (%x)", after, id, clip(raw, 40))
		}
		if !f.tcpSumOK {
			r.fail("C14:tcp-checksum", "after %s: frame for %s (payload %d bytes, flags %#02x) has a wrong TCP checksum", after, id, len(f.payload), f.flags)
		}
		if !r.haveSyn[id] {
			if f.flags&(fSYN|fACK) != fSYN|fACK {
				r.fail("C14:synack", "after %s: first frame for %s has flags %#02x, expected SYN|ACK", after, id, f.flags)
			}
			r.haveSyn[id] = true
			r.srvISN[id] = f.seq
		}
		wantAck := cn.isn + 1 + r.recvd[id]
		if r.finSent[id] {
			wantAck++
		}
		if f.flags&fACK != 0 && f.ack != wantAck {
			r.fail("C14:ack-number", "after %s: frame for %s (flags %#02x) acknowledges %d, but ISN+1+bytes received so far = %d (received %d bytes, FIN seen=%v)", after, id, f.flags, f.ack, wantAck, r.recvd[id], r.finSent[id])
		}
		end := f.seq + uint32(len(f.payload))
		if f.flags&fSYN != 0 {
			end++
		}
		if f.flags&fFIN != 0 {
			end++
		}
		if int32(end-r.srvNext[id]) > 0 || len(r.trace[id]) == 0 {
			r.srvNext[id] = end
		}
		r.trace[id] = append(r.trace[id], fmt.Sprintf("fl=%02x seq=+%d ack=%d len=%d", f.flags, f.seq-r.srvISN[id], f.ack, len(f.payload)))
	}
}

// next injects the next client frame of connection i.
func (r *c14Run) next(i int) {
	cn := r.conns[i]
	id := cn.id()
	st := r.step[id]
	srvNext := r.srvNext[id] // the client acknowledges everything the server has sent so far
	var frame []byte
	var what string
	nseg := len(cn.segs)
	switch {
	case st == 0:
		frame, what = cn.clientFrame("syn", 0, nil, 0, false), "SYN"
	case st == 1:
		frame, what = cn.clientFrame("ack", 0, nil, srvNext, false), "ACK"
	case st-2 < nseg:
		k := st - 2
		n := cn.segs[k]
		push := cn.pshAll || k == nseg-1
		frame = cn.clientFrame("data", r.off[id], cn.stream[r.off[id]:r.off[id]+n], srvNext, push)
		what = fmt.Sprintf("data segment %d/%d (%d bytes, push=%v)", k+1, nseg, n, push)
		r.off[id] += n
		r.recvd[id] += uint32(n)
		if push && r.firstPSH[id] == 0 {
			r.firstPSH[id] = r.off[id]
		}
	case st-2 == nseg:
		frame, what = cn.clientFrame("fin", r.off[id], nil, srvNext, false), "FIN"
		r.finSent[id] = true
	case cn.tail == "rst":
		frame, what = cn.clientFrame("rst", r.off[id], nil, srvNext, false), "RST after the close"
	default:
		frame, what = cn.clientFrame("lastack", r.off[id], nil, srvNext, false), "ACK of the listener's FIN"
	}
	r.step[id] = st + 1
	if p, w := r.l.inject(frame); p != "" {
		r.fail("C14:panic:"+w, "%s of %s panicked the receive path: %s", what, id, p)
		return
	}
	lab.Quiesce()
	r.c.Count("transitions", 1)
	before := len(r.trace[id])
	r.drain(what + " of " + id)
	got := len(r.trace[id]) - before
	switch {
	case st == 0 && got != 1:
		r.fail("C14:synack", "SYN of %s was answered with %d frames, expected exactly one SYN-ACK", id, got)
	case st >= 2 && st-2 < nseg && cn.segs[st-2] > 0 && got == 0:
		r.fail("C14:no-ack", "%s of %s (bytes so far %d) was not acknowledged", what, id, r.recvd[id])
	case st-2 == nseg && got == 0:
		r.fail("C14:fin-unanswered", "FIN of %s was not answered", id)
	}
}

func (cn *c14Conn) nframes() int {
	if cn.tail == "none" {
		return 3 + len(cn.segs)
	}
	return 4 + len(cn.segs)
}

func newC14Run(c *core.Ctx, conns []*c14Conn) *c14Run {
	return newC14RunOn(c, newCanaryLabK(canaryCfg{arpFor: allClients()}), conns)
}

// newC14RunOn plays further connections against a listener that has already served others.
func newC14RunOn(c *core.Ctx, l *canaryLab, conns []*c14Conn) *c14Run {
	r := &c14Run{c: c, l: l, conns: conns, srvISN: map[string]uint32{}, haveSyn: map[string]bool{}, step: map[string]int{},
		off: map[string]int{}, recvd: map[string]uint32{}, finSent: map[string]bool{}, trace: map[string][]string{}, firstPSH: map[string]int{}, srvNext: map[string]uint32{}}
	return r
}

// finish lets handler goroutines time out (60 s socket read) and checks the events.
func (r *c14Run) finish() {
	lab.Advance(61 * time.Second)
	r.drain("the socket read timeout")
	lab.Advance(6 * time.Second)
	r.checkEvents()
	r.l.close()
}

// checkEvents: one event per connection, with its addresses, whose payload is a prefix of the
// client's stream that contains at least the first pushed segment.
func (r *c14Run) checkEvents() {
	evs := r.l.takeEvents()
	for _, cn := range r.conns {
		id := cn.id()
		var mine []lab.EventMap
		for _, e := range evs {
			if lab.Str(e, "category") == "portscan" {
				continue
			}
			if lab.Str(e, "source-ip") == cn.ip.String() && lab.Str(e, "source-port") == fmt.Sprint(cn.sport) {
				mine = append(mine, e)
			}
		}
		httpish := cn.dport == 80 || cn.dport == 9200
		if len(mine) != 1 {
			if !(httpish && len(mine) == 0 && !bytes.Contains(cn.stream, []byte("\r\n\r\n"))) {
				r.fail("C14:event-count", "%s (%d bytes in %d segments): %d events recorded for the connection, expected one", id, len(cn.stream), len(cn.segs), len(mine))
			}
			continue
		}
		e := mine[0]
		if lab.Str(e, "destination-port") != fmt.Sprint(cn.dport) || lab.Str(e, "destination-ip") != ipServer.String() {
			r.fail("C14:event-address", "%s: event names destination %s:%s", id, lab.Str(e, "destination-ip"), lab.Str(e, "destination-port"))
		}
		if p, ok := e["payload"].(string); ok {
			if !bytes.HasPrefix(cn.stream, []byte(p)) {
				r.fail("C14:event-payload", "%s: event payload (%d bytes) is not a prefix of the client's stream (%d bytes)", id, len(p), len(cn.stream))
			} else if len(p) < min(r.firstPSH[id], 2048) {
				r.fail("C14:event-payload-short", "%s: event payload has %d bytes, the first pushed segment ends at byte %d", id, len(p), r.firstPSH[id])
			}
		}
	}
}

func (r *c14Run) report(name string) {
	r.c.Count("executions", 1)
	seen := map[string]bool{}
	for i, s := range r.sigs {
		if seen[s] {
			continue
		}
		seen[s] = true
		r.c.Violationf(s, "%s: %s", name, r.problems[i])
	}
}

// segment patterns for a payload of n bytes
func c14Patterns(n int) [][]int {
	if n == 0 {
		return [][]int{{}}
	}
	var out [][]int
	if n <= 4 {
		// all compositions
		var rec func(rem int, cur []int)
		rec = func(rem int, cur []int) {
			if rem == 0 {
				out = append(out, append([]int(nil), cur...))
				return
			}
			for k := 1; k <= rem; k++ {
				rec(rem-k, append(cur, k))
			}
		}
		rec(n, nil)
		return out
	}
	out = append(out, []int{n}, []int{1, n - 1}, []int{n - 1, 1}, []int{n / 2, n - n/2}, []int{n/2 - 1 + n%2*0, n - (n/2 - 1)})
	third := n / 3
	out = append(out, []int{third, third + 1, n - 2*third - 1})
	eq := func(k int, odd bool) []int {
		var s []int
		rem := n
		for i := 0; i < k-1; i++ {
			x := n / k
			if odd && x%2 == 0 {
				x++
			} else if !odd && x%2 == 1 {
				x++
			}
			if x >= rem {
				x = rem - 1
			}
			if x < 1 {
				x = 1
			}
			s = append(s, x)
			rem -= x
		}
		return append(s, rem)
	}
	if n >= 16 {
		out = append(out, eq(4, true), eq(4, false), eq(8, true), eq(8, false))
	}
	return out
}

func runC14(c *core.Ctx) {
	isns := []uint32{0, 1, 1<<31 - 1, 1 << 31, 1<<32 - 2, 1<<32 - 1}
	dports := []uint16{23, 80, 443, 445, 1433, 6379, 9200, 8081}
	sports := []uint16{1, 1024, 65535}
	plens := []int{0, 1, 2, 3, 255, 256, 1459, 1460, 2047, 2048, 4000}

	solo := func(cn *c14Conn) *c14Run {
		r := newC14Run(c, []*c14Conn{cn})
		for i := 0; i < cn.nframes(); i++ {
			r.next(0)
		}
		r.finish()
		return r
	}

	// ---- single connections: the whole parameter product
	for _, dp := range dports {
		for _, isn := range isns {
			dp, isn := dp, isn
			c.Case(fmt.Sprintf("solo/dport%d/isn%d", dp, isn), func() {
				for _, sp := range sports {
					for _, pl := range plens {
						if !c.Thorough() && sp != 1024 && pl > 256 {
							continue
						}
						for pi, pat := range c14Patterns(pl) {
							for _, pshAll := range []bool{false, true} {
								if pshAll && len(pat) < 2 {
									continue
								}
								cn := &c14Conn{ip: clientIP(5), sport: sp, dport: dp, isn: isn, stream: c14Stream(dp, pl), segs: pat, pshAll: pshAll}
								r := solo(cn)
								r.report(fmt.Sprintf("solo dport=%d sport=%d isn=%d payload=%d segments=%v pshAll=%v", dp, sp, isn, pl, pat, pshAll))
								c.Outcome(fmt.Sprint(dp, pl, pi, pshAll), strings.Join(r.trace[cn.id()], ";"))
								if c.WantSample() && pl == 255 && pi == 3 {
									c.Sample(map[string]interface{}{"connection": cn.id(), "payload": pl, "segments": pat, "emitted_frames": r.trace[cn.id()]})
								}
							}
						}
					}
				}
			})
		}
	}

	// ---- every IPv4 identification value: the listener numbers its frames consecutively from a random
	// start, so 65,536 acknowledged one-byte segments make it emit every id once; each frame's header
	// and TCP checksums are recomputed (the header checksum depends on the id)
	for _, pk := range []int{6, 200} {
		pk := pk
		c.Case(fmt.Sprintf("ipid-sweep/peer%d", pk), func() {
			n := 65536
			segs := make([]int, n)
			for i := range segs {
				segs[i] = 1
			}
			cn := &c14Conn{ip: clientIP(pk), sport: 40000, dport: 8081, isn: 1<<32 - 70000, stream: c14Stream(8081, n), segs: segs, pshAll: true, tail: "none"}
			r := newC14Run(c, []*c14Conn{cn})
			for i := 0; i < cn.nframes(); i++ {
				r.next(0)
			}
			r.finish()
			for i := range r.sigs { // its own signatures: these verdicts do not depend on the random first id
				r.sigs[i] = "C14:ipid-sweep:" + strings.TrimPrefix(r.sigs[i], "C14:")
			}
			r.report(fmt.Sprintf("65536 one-byte segments from %s (every IPv4 id once)", cn.ip))
			c.Outcome("ipid-sweep", fmt.Sprint(pk), fmt.Sprint(len(r.trace[cn.id()])))
			c.Note(fmt.Sprintf("ipid sweep from %s: %d frames emitted and checked", cn.ip, len(r.trace[cn.id()])))
		})
	}

	// ---- the same address and port pair again after an earlier connection ended (its entry may still
	// be in the state table): the new SYN opens a new connection like any other
	c.Case("reconnect/same port pair", func() {
		for _, tail1 := range []string{"", "none", "rst"} {
			for _, dp := range []uint16{8081, 80, 6379} {
				for _, gap := range []time.Duration{0, 70 * time.Second} {
					a := &c14Conn{ip: clientIP(6), sport: 5000, dport: dp, isn: 1000, stream: c14Stream(dp, 70), segs: []int{70}, tail: tail1}
					r1 := newC14Run(c, []*c14Conn{a})
					for i := 0; i < a.nframes(); i++ {
						r1.next(0)
					}
					lab.Advance(61 * time.Second)
					r1.drain("the socket read timeout")
					lab.Advance(6 * time.Second)
					r1.checkEvents()
					r1.report(fmt.Sprintf("first connection dport=%d tail=%q", dp, tail1))
					if gap > 0 {
						lab.Advance(gap)
					}
					b := &c14Conn{ip: clientIP(6), sport: 5000, dport: dp, isn: 900000, stream: c14Stream(dp, 70), segs: []int{30, 40}, pshAll: true}
					r2 := newC14RunOn(c, r1.l, []*c14Conn{b})
					for i := 0; i < b.nframes(); i++ {
						r2.next(0)
					}
					r2.finish()
					r2.report(fmt.Sprintf("second connection on the same address and port pair (dport=%d, first ended with tail=%q, %v later)", dp, tail1, gap))
					c.Outcome("reconnect", fmt.Sprint(dp, tail1, gap), strings.Join(r2.trace[b.id()], ";"))
				}
			}
		}
	})

	// ---- simultaneous connections: all frame interleavings; each connection's frames = its solo frames
	type kset struct {
		name  string
		conns func() []*c14Conn
	}
	mk := func(ipk int, sp, dp uint16, isn uint32, n int, segs []int, tail ...string) *c14Conn {
		cn := &c14Conn{ip: clientIP(ipk), sport: sp, dport: dp, isn: isn, stream: c14Stream(dp, n), segs: segs, tail: "none"}
		if len(tail) > 0 {
			cn.tail = tail[0]
		}
		return cn
	}
	sets := []kset{
		{"2 peers same ports", func() []*c14Conn {
			return []*c14Conn{mk(6, 5000, 8081, 1<<32-2, 6, []int{3, 3}, ""), mk(7, 5000, 8081, 10, 6, []int{3, 3})}
		}},
		{"1 peer 2 ports", func() []*c14Conn {
			return []*c14Conn{mk(6, 5000, 8081, 100, 5, []int{2, 3}, "rst"), mk(6, 5001, 8081, 200, 5, []int{1, 4})}
		}},
		{"2 peers decoded ports", func() []*c14Conn {
			return []*c14Conn{mk(6, 5000, 6379, 1<<31-1, 8, []int{4, 4}), mk(7, 6000, 23, 0, 4, []int{4}, "")}
		}},
		{"3 peers", func() []*c14Conn {
			return []*c14Conn{mk(6, 5000, 8081, 1, 3, []int{3}, ""), mk(7, 5000, 8082, 2, 3, []int{3}), mk(8, 5000, 8081, 1<<32-1, 2, []int{2})}
		}},
		{"mirror ports", func() []*c14Conn {
			return []*c14Conn{mk(6, 8081, 5000, 7, 3, []int{3}, "rst"), mk(6, 5000, 8081, 9, 3, []int{3}, "")}
		}},
	}
	if c.Thorough() {
		sets = append(sets, kset{"4 peers", func() []*c14Conn {
			return []*c14Conn{mk(6, 5000, 8081, 1, 1, []int{1}), mk(7, 5000, 8081, 2, 0, []int{}), mk(8, 5000, 8081, 3, 0, []int{}), mk(9, 5000, 8081, 4, 0, []int{})}
		}})
	}
	for _, ks0 := range sets {
		nk := len(ks0.conns())
		for pa := 0; pa < nk; pa++ {
			for pb := 0; pb < nk; pb++ {
				ks, pa, pb := ks0, pa, pb
				c.Case(fmt.Sprintf("multi/%s/prefix%d%d", ks.name, pa, pb), func() {
					// solo traces first
					want := map[string]string{}
					for _, cn := range ks.conns() {
						r := solo(cn)
						want[cn.id()] = strings.Join(r.trace[cn.id()], ";")
					}
					var lens []int
					for _, cn := range ks.conns() {
						lens = append(lens, cn.nframes())
					}
					interleavings(lens, func(order []int) {
						if order[0] != pa || order[1] != pb || c.Stopping() {
							return
						}
						conns := ks.conns()
						r := newC14Run(c, conns)
						for _, who := range order {
							r.next(who)
						}
						r.finish()
						for _, cn := range conns {
							if got := strings.Join(r.trace[cn.id()], ";"); got != want[cn.id()] {
								r.fail("C14:interference", "connection %s: frames emitted in the interleaving %v are [%s], alone they are [%s]", cn.id(), order, got, want[cn.id()])
							}
						}
						r.report("multi " + ks.name)
						c.Outcome("multi", ks.name, fmt.Sprint(r.trace))
					})
				})
			}
		}
	}
}

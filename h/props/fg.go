//go:build verifinst

package props

// Fine-grain explorer: a stateless, preemption-bounded depth-first search over
// the schedules of the REAL goroutines of honeytrap, at the granularity of
// their synchronisation operations. The sources of the components under test
// are rewritten by /verif/inst (build overlay; nothing is written to the
// repository): before every channel operation, select, go statement, mutex
// Lock and watched map access the goroutine parks in package verifsched until
// the explorer releases it. synctest.Wait() returns exactly when every
// goroutine in the bubble is parked at such a point or durably blocked, so one
// "transition" is: release one parked goroutine, wait for quiescence.
//
// A scenario is a function that builds a fresh instance of the component,
// feeds it, and calls x.drive() where the harness would otherwise wait for
// quiescence; drive() consumes the schedule. The explorer re-runs the scenario
// for every schedule (no state is copied), checks that the enabled sets seen
// while replaying a prefix are the ones recorded (divergence = hard error) and
// evaluates the oracle on every complete execution.

import (
	"fmt"
	"strings"
	"testing/synctest"

	"github.com/honeytrap/honeytrap/verifsched"

	"verif/h/core"
)

type fgPoint struct {
	enabled     []string // "label@site" in canonical order
	lastEnabled bool     // the goroutine released last is enabled (choosing another one is a preemption)
}

type fgExec struct {
	prefix   []int
	choices  []int
	points   []fgPoint
	trace    []string
	expect   []fgPoint // enabled sets recorded when the prefix was first run
	diverged string
	deadlock string
	races    map[string]string
	horizon  bool
	maxSteps int
}

func (x *fgExec) preemptionsBefore(i int) int {
	n := 0
	for k := 0; k < i; k++ {
		if x.choices[k] != 0 && x.points[k].lastEnabled {
			n++
		}
	}
	return n
}

// drive releases parked goroutines according to the schedule until none is enabled.
func (x *fgExec) drive() {
	for {
		synctest.Wait()
		core.Tick()
		if a, b := verifsched.Conflict(); a != nil {
			s1, s2 := a.Site, b.Site
			if s2 < s1 {
				s1, s2 = s2, s1
			}
			k := s1 + "+" + s2
			if _, ok := x.races[k]; !ok {
				x.races[k] = fmt.Sprintf("%s at %s (write=%v) and %s at %s (write=%v) are enabled together on the same map", a.G, a.Site, a.Write, b.G, b.Site, b.Write)
			}
		}
		en, blocked := verifsched.Enabled()
		if len(en) == 0 {
			if len(blocked) > 0 {
				var w []string
				for _, p := range blocked {
					w = append(w, p.G+"@"+p.Site)
				}
				x.deadlock = strings.Join(w, ", ")
			} else {
				x.deadlock = ""
			}
			return
		}
		i := len(x.choices)
		pt := fgPoint{lastEnabled: en[0].G == verifsched.LastRun()}
		for _, p := range en {
			pt.enabled = append(pt.enabled, p.G+"@"+p.Site)
		}
		ch := 0
		if i < len(x.prefix) {
			ch = x.prefix[i]
			if i < len(x.expect) && strings.Join(x.expect[i].enabled, " ") != strings.Join(pt.enabled, " ") && x.diverged == "" {
				x.diverged = fmt.Sprintf("decision %d: recorded enabled set [%s], replay sees [%s]", i, strings.Join(x.expect[i].enabled, " "), strings.Join(pt.enabled, " "))
			}
			if ch >= len(en) {
				if x.diverged == "" {
					x.diverged = fmt.Sprintf("decision %d: choice %d of %d", i, ch, len(en))
				}
				ch = 0
			}
		}
		x.points = append(x.points, pt)
		x.choices = append(x.choices, ch)
		x.trace = append(x.trace, pt.enabled[ch])
		verifsched.Release(en[ch])
		if len(x.choices) >= x.maxSteps {
			x.horizon = true
			return
		}
	}
}

type fgScenario struct {
	prop string // property id (prefix of the signatures the explorer itself reports)
	name string
	// run builds a fresh instance, activates the scheduler, drives, deactivates, tears down and
	// returns the oracle's verdicts (signature -> detail) for this execution.
	run   func(x *fgExec) map[string]string
	bound int // preemption bound
}

type fgStats struct {
	execs, transitions, maxPoints, divergences, horizons int
	outcomes                                             map[string]bool
}

func fgRunOnce(sc *fgScenario, prefix []int, expect []fgPoint) (*fgExec, map[string]string) {
	x := &fgExec{prefix: prefix, expect: expect, races: map[string]string{}, maxSteps: 4000}
	v := sc.run(x)
	return x, v
}

// fgExplore runs every schedule of sc with at most sc.bound preemptions, one Case per position of
// the first deviation from the default schedule.
func fgExplore(c *core.Ctx, sc *fgScenario) {
	st := &fgStats{outcomes: map[string]bool{}}
	var x0 *fgExec
	report := func(x *fgExec, v map[string]string) {
		st.execs++
		st.transitions += len(x.choices)
		if len(x.points) > st.maxPoints {
			st.maxPoints = len(x.points)
		}
		c.Count("executions", 1)
		c.Count("schedules", 1)
		c.Count("transitions", int64(len(x.choices)))
		sched := fmt.Sprintf("%s schedule=%v trace=[%s]", sc.name, trimChoices(x.choices), strings.Join(x.trace, " > "))
		if x.diverged != "" {
			st.divergences++
			c.Count("fg_divergences", 1)
			c.NotExhaustive("fine-grain replay diverged (" + sc.name + "): " + x.diverged)
			return
		}
		if x.horizon {
			st.horizons++
			c.NotExhaustive(fmt.Sprintf("fine-grain horizon of %d transitions reached in %s", x.maxSteps, sc.name))
		}
		for k, d := range x.races {
			c.Violationf(sc.prop+":fg:race:"+k, "%s: %s", sched, d)
		}
		if x.deadlock != "" {
			v[sc.prop+":fg:stuck"] = "no goroutine is enabled but these wait for a lock that is never released: " + x.deadlock
		}
		for sig, d := range v {
			c.Violationf(sig, "%s: %s", sched, d)
		}
		c.Outcome(sc.name, fmt.Sprint(len(x.choices)), fmt.Sprint(len(v)))
	}
	var explore func(prefix []int, expect []fgPoint)
	explore = func(prefix []int, expect []fgPoint) {
		if c.Stopping() {
			return
		}
		x, v := fgRunOnce(sc, prefix, expect)
		report(x, v)
		if x.diverged != "" {
			return
		}
		for i := len(prefix); i < len(x.points); i++ {
			p := x.points[i]
			if len(p.enabled) < 2 {
				continue
			}
			cost := x.preemptionsBefore(i)
			if p.lastEnabled {
				cost++
			}
			if cost > sc.bound {
				continue
			}
			for alt := 1; alt < len(p.enabled); alt++ {
				explore(append(append([]int{}, x.choices[:i]...), alt), x.points[:i+1])
			}
		}
	}
	// the default schedule (runs in every shard: the case list must be the same everywhere)
	var v0 map[string]string
	x0, v0 = fgRunOnce(sc, nil, nil)
	c.Case(sc.name+"/default", func() { report(x0, v0) })
	if x0.diverged != "" {
		return
	}
	for i := range x0.points {
		i := i
		p := x0.points[i]
		if len(p.enabled) < 2 {
			continue
		}
		cost := x0.preemptionsBefore(i)
		if p.lastEnabled {
			cost++
		}
		if cost > sc.bound {
			continue
		}
		c.Case(fmt.Sprintf("%s/first-deviation@%d", sc.name, i), func() {
			for alt := 1; alt < len(p.enabled); alt++ {
				explore(append(append([]int{}, x0.choices[:i]...), alt), x0.points[:i+1])
			}
		})
	}
	c.Note(fmt.Sprintf("fine-grain %s: preemption bound %d, default schedule has %d decisions", sc.name, sc.bound, len(x0.points)))
}

func trimChoices(ch []int) []int {
	n := len(ch)
	for n > 0 && ch[n-1] == 0 {
		n--
	}
	return ch[:n]
}

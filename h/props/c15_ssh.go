package props

import (
	"bytes"
	"crypto/ed25519"
	"crypto/rand"
	"fmt"
	"io"
	"strings"
	"sync"

	"golang.org/x/crypto/ssh"

	"verif/h/core"
	"verif/h/lab"
)

// SSH proxy: the harness is both the client (real x/crypto/ssh client through
// the proxy service) and the backend (real x/crypto/ssh server behind the
// verif-mem director).

type sshBackend struct {
	mu       sync.Mutex
	accept   map[string]bool // "user\x00password" accepted
	attempts []string
	requests []string // "type:payloadhex:wantReply"
	data     []byte   // channel data received from the client
	reply    []byte   // sent to the client once its data has arrived
	want     int      // client bytes to wait for before replying
	signer   ssh.Signer
	// the harness releases the backend's actions one by one (reply, exit-status, close), with
	// quiescence in between: which of them overtakes which inside the proxy is a finer-grained
	// schedule than this part explores
	gateReply, gateExit, gateClose chan struct{}
}

func newSSHBackend() *sshBackend {
	_, priv, _ := ed25519.GenerateKey(rand.Reader)
	signer, _ := ssh.NewSignerFromKey(priv)
	return &sshBackend{accept: map[string]bool{}, signer: signer, gateReply: make(chan struct{}), gateExit: make(chan struct{}), gateClose: make(chan struct{})}
}

func (b *sshBackend) serve(bc *lab.BackendConn) {
	cfg := &ssh.ServerConfig{
		PasswordCallback: func(cm ssh.ConnMetadata, pw []byte) (*ssh.Permissions, error) {
			b.mu.Lock()
			defer b.mu.Unlock()
			b.attempts = append(b.attempts, cm.User()+"\x00"+string(pw))
			if b.accept[cm.User()+"\x00"+string(pw)] {
				return nil, nil
			}
			return nil, fmt.Errorf("denied")
		},
	}
	cfg.AddHostKey(b.signer)
	sc, chans, reqs, err := ssh.NewServerConn(bc.Backend, cfg)
	if err != nil {
		bc.Backend.Close()
		return
	}
	defer sc.Close()
	go ssh.DiscardRequests(reqs)
	for nc := range chans {
		if nc.ChannelType() != "session" {
			nc.Reject(ssh.UnknownChannelType, "no")
			continue
		}
		ch, rq, err := nc.Accept()
		if err != nil {
			continue
		}
		started := make(chan struct{}, 1)
		go func() {
			for r := range rq {
				b.mu.Lock()
				b.requests = append(b.requests, fmt.Sprintf("%s:%x:%v", r.Type, r.Payload, r.WantReply))
				b.mu.Unlock()
				if r.WantReply {
					r.Reply(true, nil)
				}
				if r.Type == "shell" || r.Type == "exec" {
					select {
					case started <- struct{}{}:
					default:
					}
				}
			}
		}()
		go func() {
			<-started
			buf := make([]byte, 32768)
			got := 0
			for got < b.want {
				n, err := ch.Read(buf)
				b.mu.Lock()
				b.data = append(b.data, buf[:n]...)
				b.mu.Unlock()
				got += n
				if err != nil {
					break
				}
			}
			<-b.gateReply
			if len(b.reply) > 0 {
				ch.Write(b.reply)
			}
			<-b.gateExit
			ch.SendRequest("exit-status", false, []byte{0, 0, 0, 0})
			<-b.gateClose
			ch.Close()
		}()
	}
}

func c15SSH(c *core.Ctx) {
	type pwScript struct {
		name   string
		tries  []string
		accept string // password the backend accepts ("" = none)
	}
	pws := []pwScript{{"accepted", []string{"s3cret"}, "s3cret"}, {"rejected-then-accepted", []string{"bad", "s3cret"}, "s3cret"}, {"rejected", []string{"bad", "worse"}, ""}}
	type reqSeq []sshReq
	envP := append(sshString("LANG"), sshString("C")...)
	ptyP := append(append(sshString("xterm"), 0, 0, 0, 80, 0, 0, 0, 24, 0, 0, 0, 0, 0, 0, 0, 0), sshString("")...)
	pre := []sshReq{{typ: "env", wantReply: true, payload: envP}, {typ: "pty-req", wantReply: true, payload: ptyP}, {typ: "env", wantReply: false, payload: envP}}
	starts := []sshReq{{typ: "shell", wantReply: true}, {typ: "exec", wantReply: true, payload: sshString("uname -a")}}
	var seqs []reqSeq
	for _, st := range starts {
		seqs = append(seqs, reqSeq{st})
		for _, a := range pre {
			seqs = append(seqs, reqSeq{a, st})
			for _, b := range pre {
				seqs = append(seqs, reqSeq{a, b, st})
			}
		}
	}
	sizes := []int{0, 1, 32768, 65536}
	mk := func(n int, seed byte) []byte {
		b := make([]byte, n)
		for i := range b {
			b[i] = byte(i)*3 + seed
		}
		return b
	}
	run := func(name string, pw pwScript, rs reqSeq, up, down int) {
		s := startProxy("ssh-proxy", 2200, "tcp")
		defer s.Stop()
		be := newSSHBackend()
		if pw.accept != "" {
			be.accept["root\x00"+pw.accept] = true
		}
		be.want = up
		be.reply = mk(down, 9)
		lab.OnDial(be.serve)
		defer lab.OnDial(nil)
		sp := svcSpecs["ssh-simulator"]
		sp.port = 2200
		svcSpecs["c15-ssh"] = sp
		a := sshConnect(s, "c15-ssh", 0, "root", pw.tries)
		c.Count("executions", 1)
		desc := fmt.Sprintf("ssh-proxy %s passwords=%v requests=%v data up=%d down=%d", name, pw.tries, reqNames(rs), up, down)
		wantOK := pw.accept != ""
		if (a.conn != nil) != wantOK {
			c.Violationf("C15:ssh:auth-outcome", "%s: login through the proxy succeeded=%v, the backend accepts=%v (err %v)", desc, a.conn != nil, wantOK, a.err)
			a.close()
			return
		}
		// credentials as seen by the backend
		var wantAtt []string
		for _, p := range a.tried {
			wantAtt = append(wantAtt, "root\x00"+p)
		}
		be.mu.Lock()
		gotAtt := append([]string(nil), be.attempts...)
		be.mu.Unlock()
		if strings.Join(gotAtt, "|") != strings.Join(wantAtt, "|") {
			c.Violationf("C15:ssh:credentials", "%s: the backend was presented %q, the client presented %q", desc, gotAtt, wantAtt)
		}
		if a.conn == nil {
			a.close()
			return
		}
		// session: requests, then data both ways
		type res struct {
			ch  ssh.Channel
			in  <-chan *ssh.Request
			err error
		}
		rc := make(chan res, 1)
		go func() {
			ch, in, err := a.conn.OpenChannel("session", nil)
			rc <- res{ch, in, err}
		}()
		lab.Quiesce()
		var ch ssh.Channel
		select {
		case r := <-rc:
			if r.err != nil {
				c.Violationf("C15:ssh:channel", "%s: session channel refused through the proxy: %v", desc, r.err)
				a.close()
				return
			}
			ch = r.ch
			go ssh.DiscardRequests(r.in)
		default:
			c.Violationf("C15:ssh:channel", "%s: session channel open got no answer", desc)
			a.close()
			return
		}
		for _, rq := range rs {
			done := make(chan error, 1)
			go func(rq sshReq) {
				_, err := ch.SendRequest(rq.typ, rq.wantReply, rq.payload)
				done <- err
			}(rq)
			lab.Quiesce()
			select {
			case <-done:
			default:
				c.Violationf("C15:ssh:request-unanswered", "%s: request %q got no reply through the proxy", desc, rq.typ)
				a.close()
				return
			}
			c.Count("transitions", 1)
		}
		var down2 []byte
		var dmu sync.Mutex
		rdDone := make(chan struct{})
		go func() {
			buf := make([]byte, 32768)
			for {
				n, err := ch.Read(buf)
				dmu.Lock()
				down2 = append(down2, buf[:n]...)
				dmu.Unlock()
				if err != nil {
					close(rdDone)
					return
				}
			}
		}()
		upData := mk(up, 1)
		go func() {
			if len(upData) > 0 {
				ch.Write(upData)
			}
		}()
		lab.Quiesce()
		release := func(g chan struct{}) {
			select {
			case g <- struct{}{}:
			default:
			}
			lab.Quiesce()
		}
		release(be.gateReply)
		be.mu.Lock()
		gotReq, gotData := append([]string(nil), be.requests...), append([]byte(nil), be.data...)
		be.mu.Unlock()
		var wantReq []string
		for _, rq := range rs {
			wantReq = append(wantReq, fmt.Sprintf("%s:%x:%v", rq.typ, rq.payload, rq.wantReply))
		}
		if strings.Join(gotReq, "|") != strings.Join(wantReq, "|") {
			c.Violationf("C15:ssh:requests", "%s: the backend received channel requests %v, the client sent %v", desc, gotReq, wantReq)
		}
		if !bytes.Equal(gotData, upData) {
			c.Violationf("C15:ssh:data-up", "%s: the backend received %d bytes of channel data, the client sent %d", desc, len(gotData), len(upData))
		}
		dmu.Lock()
		d2 := append([]byte(nil), down2...)
		dmu.Unlock()
		if !bytes.Equal(d2, be.reply) {
			c.Violationf("C15:ssh:data-down", "%s: the client received %d bytes of channel data, the backend sent %d", desc, len(d2), len(be.reply))
		}
		// event attributed to the client
		found := false
		for _, e := range allEvents() {
			if lab.Str(e, "type") == "password-authentication" && lab.Str(e, "source-ip") == "10.1.0.10" && lab.Str(e, "ssh.password") == pw.accept {
				found = true
			}
		}
		if !found {
			c.Violationf("C15:ssh:event", "%s: no password-authentication event with the client's address and the presented password", desc)
		}
		release(be.gateExit)
		release(be.gateClose)
		go ch.Close()
		lab.Quiesce()
		a.close()
		c.Outcome("ssh", name, fmt.Sprint(reqNames(rs)), fmt.Sprint(up, down))
		_ = io.EOF
	}
	for pi, pw := range pws {
		pi, pw := pi, pw
		c.Case("ssh/auth/"+pw.name, func() {
			run("auth", pw, reqSeq{starts[0]}, 1, 1)
			if pi == 0 {
				c.Sample(map[string]interface{}{"part": "ssh-proxy", "passwords": pw.tries, "backend_accepts": pw.accept})
			}
		})
	}
	for si, rs := range seqs {
		si, rs := si, rs
		c.Case(fmt.Sprintf("ssh/requests/%d:%v", si, reqNames(rs)), func() { run("requests", pws[0], rs, 1, 1) })
	}
	for _, up := range sizes {
		for _, down := range sizes {
			up, down := up, down
			c.Case(fmt.Sprintf("ssh/data/%d/%d", up, down), func() { run("data", pws[0], reqSeq{starts[0]}, up, down) })
		}
	}
}

func reqNames(rs []sshReq) []string {
	var n []string
	for _, r := range rs {
		n = append(n, r.typ)
	}
	return n
}

package props

import (
	"fmt"
	"os"
	"regexp"
	"runtime"
	"sort"
	"strings"
	"time"

	"verif/h/core"
	"verif/h/lab"
)

// C09 — handlers finish and release everything once the peer is gone.
//
// For every service and every dialogue prefix (the seeds of C01, their
// truncations, raw bytes), the client then closes, or stays silent, or (UDP)
// has sent its single datagram. Oracle: the server has closed the connection
// (Handle returned) within fake 31 s + 1 s of the trigger; after quiescence
// the multiset of goroutines with frames in honeytrap and the descriptor
// count equal the pre-connection baseline; over N sequential connections
// nothing accumulates.

func init() { register("C09", driver{run: runC09, needsStorage: true, pre: c01Pre}) }

var goroutineHdr = regexp.MustCompile(`(?m)^goroutine \d+ \[[^\]]*\]:$`)

// honeytrapGoroutines returns, for every live goroutine that has a frame in
// github.com/honeytrap/honeytrap, a signature "top honeytrap function <- created by".
func honeytrapGoroutines() map[string]int {
	buf := make([]byte, 1<<20)
	for {
		n := runtime.Stack(buf, true)
		if n < len(buf) {
			buf = buf[:n]
			break
		}
		buf = make([]byte, 2*len(buf))
	}
	out := map[string]int{}
	for _, g := range strings.Split(string(buf), "\n\n") {
		if !strings.Contains(g, "github.com/honeytrap/honeytrap/") {
			continue
		}
		top, created := "", ""
		for _, line := range strings.Split(g, "\n") {
			if strings.HasPrefix(line, "created by ") {
				created = strings.TrimPrefix(line, "created by ")
				if i := strings.Index(created, " in goroutine"); i >= 0 {
					created = created[:i]
				}
				continue
			}
			if top == "" && strings.HasPrefix(line, "github.com/honeytrap/honeytrap/") {
				top = line
				if i := strings.LastIndex(top, "("); i > 0 {
					top = top[:i]
				}
			}
		}
		sig := strings.ReplaceAll(top+" <- "+created, "github.com/honeytrap/honeytrap/", "")
		out[sig]++
	}
	return out
}

func diffGoroutines(before, after map[string]int) []string {
	var d []string
	for k, v := range after {
		if v > before[k] {
			d = append(d, fmt.Sprintf("%s x%d", k, v-before[k]))
		}
	}
	sort.Strings(d)
	return d
}

func fdCount() int {
	runtime.GC()
	runtime.GC()
	ents, err := os.ReadDir("/proc/self/fd")
	if err != nil {
		return -1
	}
	return len(ents)
}

const c09MaxPeriods = 10

type c09End int

const (
	endClose c09End = iota
	endSilence
)

func (e c09End) String() string {
	if e == endClose {
		return "client-close"
	}
	return "silence"
}

func leakSig(d []string) string {
	if len(d) == 0 {
		return ""
	}
	s := d[0]
	if i := strings.Index(s, " x"); i > 0 {
		s = s[:i]
	}
	return s
}

func runC09(c *core.Ctx) {
	tcp := tcpSeeds()
	udp := udpSeeds()
	tcpNames := []string{"adb", "cwmp", "docker", "echo-tcp", "elasticsearch", "eos", "ethereum", "ftp", "http", "https", "ipp", "ldap", "memcached", "redis", "smtp", "ssh-auth", "ssh-simulator", "telnet", "vnc"}
	udpNames := []string{"counterstrike", "dns", "echo", "memcached-udp", "ntp", "snmp", "tftp"}

	// one TCP scenario: segments, then the end trigger, then 32 fake seconds
	tcpScenario := func(s *lab.Server, svc, stage string, segs [][]byte, end c09End, base map[string]int, fd0 int) {
		c.Mark("c09", fmt.Sprintf("%s %s then %s", svc, stage, end))
		conn := dial(s, svc, 0)
		lab.Quiesce()
		for _, sg := range segs {
			conn.Send(sg)
			lab.Quiesce()
			c.Count("transitions", 1)
		}
		if end == endClose {
			conn.CloseWrite()
		}
		lab.Quiesce()
		// "returns within a bounded time": the idle deadline is 30 s per read; library readers may
		// turn one timeout into a short line and need a second period. The bound used is 10 periods.
		periods := 0
		for !conn.Closed() && periods < c09MaxPeriods {
			lab.Advance(31 * time.Second)
			periods++
		}
		c.Count("executions", 1)
		c.Class(fmt.Sprintf("%s/%s/closed-after-%d-idle-periods", svc, end, periods))
		if !conn.Closed() {
			c.Violationf(fmt.Sprintf("C09:%s:handler-not-finished:%s", svc, end), "%s: %s, then %s: the server has not closed the connection %d fake seconds later (handler still running)", svc, stage, end, 31*c09MaxPeriods)
			conn.CloseWrite()
			lab.Advance(40 * time.Second)
		}
		after := honeytrapGoroutines()
		if d := diffGoroutines(base, after); len(d) > 0 {
			// give helper goroutines one more idle period before calling it a leak
			lab.Advance(35 * time.Second)
			after = honeytrapGoroutines()
			if d = diffGoroutines(base, after); len(d) > 0 {
				c.Violationf(fmt.Sprintf("C09:%s:goroutine-leak:%s", svc, leakSig(d)), "%s: %s, then %s: goroutines remain after the handler finished: %s", svc, stage, end, strings.Join(d, "; "))
				for k, v := range after { // do not report the same leak for every later scenario
					base[k] = v
				}
			}
		}
		lab.ResetEvents()
	}

	// a port shared by several services: the server reads the first bytes itself (peek) before any
	// service runs; a silent or departing client must be let go there too
	for li, list := range []string{`"http", "echo"`, `"dA", "p1"`, `"dA", "dB"`, `"p1", "dA"`, `"cwmp", "http", "echo"`} {
		li, list := li, list
		c.Case(fmt.Sprintf("shared-port/%d", li), func() {
			toml := c08Services + "[service.http]\ntype=\"http\"\n\n[service.echo]\ntype=\"echo\"\n\n[service.cwmp]\ntype=\"cwmp\"\n\n" +
				fmt.Sprintf("[[port]]\nport=\"tcp/8099\"\nservices=[%s]\n\n", list) +
				"[channel.cap]\ntype=\"verif-capture\"\nid=\"cap\"\n\n[[filter]]\nchannel=[\"cap\"]\n"
			lab.ResetEvents()
			lab.ResetStubs()
			s, err := lab.Start(toml)
			if err != nil {
				panic(err)
			}
			lab.Quiesce()
			if err := s.Attach(); err != nil {
				panic(err)
			}
			defer s.Stop()
			base := honeytrapGoroutines()
			fd0 := fdCount()
			name := "shared-port"
			for _, end := range []c09End{endClose, endSilence} {
				tcpScenario(s, name, "services ["+list+"]: no byte sent", nil, end, base, fd0)
				for _, r := range [][]byte{{'G'}, {'A'}, {'B'}, []byte("GET / HTTP/1.1\r\n"), []byte("GET / HTTP/1.1\r\nHost: x\r\n\r\n"), {0}} {
					tcpScenario(s, name, fmt.Sprintf("services [%s]: %q", list, r), [][]byte{r}, end, base, fd0)
				}
			}
			if fd1 := fdCount(); fd1 > fd0 {
				c.Violationf("C09:shared-port:fd-leak", "services [%s]: %d descriptors before, %d after all scenarios", list, fd0, fd1)
			}
			c.Outcome("shared-port", list)
		})
	}

	for _, svc := range tcpNames {
		svc := svc
		seeds := tcp[svc]
		c.Case(svc+"/stages", func() {
			s := startSvc(svc)
			defer s.Stop()
			base := honeytrapGoroutines()
			fd0 := fdCount()
			for _, end := range []c09End{endClose, endSilence} {
				tcpScenario(s, svc, "no byte sent", nil, end, base, fd0)
				for _, a := range seeds {
					if len(a.b) > 20000 {
						continue
					}
					tcpScenario(s, svc, "after "+a.name, [][]byte{a.b}, end, base, fd0)
					if len(a.b) > 2 {
						h := len(a.b) / 2
						tcpScenario(s, svc, fmt.Sprintf("mid-command (%s cut at %d/%d)", a.name, h, len(a.b)), [][]byte{a.b[:h]}, end, base, fd0)
						tcpScenario(s, svc, fmt.Sprintf("last byte missing (%s)", a.name), [][]byte{a.b[:len(a.b)-1]}, end, base, fd0)
					}
				}
				for _, r := range [][]byte{{0}, {0xff}, {'\n'}, {0x16, 0x03}, {'S', 'S'}, {0x30, 0x84}} {
					tcpScenario(s, svc, fmt.Sprintf("raw %x", r), [][]byte{r}, end, base, fd0)
				}
			}
			if fd1 := fdCount(); fd1 > fd0 {
				c.Violationf("C09:"+svc+":fd-leak", "%s: %d descriptors before, %d after all scenarios", svc, fd0, fd1)
			}
			c.Outcome(svc, "stages")
		})
		// two-seed dialogues then close / silence
		c.Case(svc+"/dialogues", func() {
			s := startSvc(svc)
			defer s.Stop()
			base := honeytrapGoroutines()
			lim := len(seeds)
			if lim > 14 && !c.Thorough() {
				lim = 14
			}
			for i := 0; i < lim; i++ {
				for j := 0; j < lim; j++ {
					if len(seeds[i].b) > 5000 || len(seeds[j].b) > 5000 {
						continue
					}
					end := c09End((i + j) % 2)
					tcpScenario(s, svc, "after "+seeds[i].name+" ; "+seeds[j].name, [][]byte{seeds[i].b, seeds[j].b}, end, base, 0)
				}
			}
			c.Outcome(svc, "dialogues")
		})
		// histories of N identical sequential connections
		for _, n := range []int{1, 2, 5, 20, 200} {
			n := n
			c.Case(fmt.Sprintf("%s/history/%d", svc, n), func() {
				s := startSvc(svc)
				defer s.Stop()
				pick := seeds[0]
				for _, sd := range seeds {
					if strings.Contains(sd.name, "login") || strings.Contains(sd.name, "MAIL+DATA") || strings.Contains(sd.name, "init+update") || strings.Contains(sd.name, "bind root") {
						pick = sd
					}
				}
				base := honeytrapGoroutines()
				fd0 := fdCount()
				for i := 0; i < n; i++ {
					conn := dial(s, svc, i%5)
					lab.Quiesce()
					conn.Send(pick.b)
					lab.Quiesce()
					conn.CloseWrite()
					lab.Quiesce()
					for p := 0; !conn.Closed() && p < c09MaxPeriods; p++ {
						lab.Advance(31 * time.Second)
					}
					c.Count("transitions", 3)
				}
				lab.Advance(35 * time.Second)
				after := honeytrapGoroutines()
				c.Count("executions", 1)
				if d := diffGoroutines(base, after); len(d) > 0 {
					c.Violationf(fmt.Sprintf("C09:%s:accumulation:%s", svc, leakSig(d)), "%s: after %d sequential connections (%s) the process holds more goroutines than before: %s", svc, n, pick.name, strings.Join(d, "; "))
				}
				if fd1 := fdCount(); fd1 > fd0 {
					c.Violationf("C09:"+svc+":fd-accumulation", "%s: after %d sequential connections %d descriptors are open, %d before", svc, n, fd1, fd0)
				}
				c.Outcome(svc, "history", fmt.Sprint(n))
				if c.WantSample() && n == 20 {
					c.Sample(map[string]interface{}{"service": svc, "history": n, "dialogue": pick.name, "baseline_goroutines": base})
				}
			})
		}
	}

	for _, svc := range udpNames {
		svc := svc
		seeds := udp[svc]
		c.Case(svc+"/datagrams", func() {
			s := startSvc(svc)
			defer s.Stop()
			base := honeytrapGoroutines()
			fd0 := fdCount()
			sp := svcSpecs[svc]
			ip, port := clientAddr(0)
			all := append([]seed{{"empty", nil}, {"1 byte", []byte{0}}}, seeds...)
			for _, a := range all {
				c.Mark("c09", fmt.Sprintf("%s datagram %s", svc, a.name))
				s.SendUDP(serverIP, sp.port, ip, port, a.b)
				lab.Quiesce()
				c.Count("executions", 1)
				c.Count("transitions", 1)
				after := honeytrapGoroutines()
				if d := diffGoroutines(base, after); len(d) > 0 {
					lab.Advance(32 * time.Second)
					after = honeytrapGoroutines()
					if d = diffGoroutines(base, after); len(d) > 0 {
						c.Violationf(fmt.Sprintf("C09:%s:handler-not-finished:datagram", svc), "%s: after the datagram %s was consumed (and 32 fake seconds) goroutines remain: %s", svc, a.name, strings.Join(d, "; "))
						for k, v := range after {
							base[k] = v
						}
					}
				}
				lab.ResetEvents()
			}
			for _, n := range []int{20, 200} {
				for i := 0; i < n; i++ {
					s.SendUDP(serverIP, sp.port, ip, port+i, seeds[0].b)
					lab.Quiesce()
				}
				after := honeytrapGoroutines()
				if d := diffGoroutines(base, after); len(d) > 0 {
					c.Violationf(fmt.Sprintf("C09:%s:accumulation:datagram", svc), "%s: after %d datagrams: %s", svc, n, strings.Join(d, "; "))
				}
			}
			if fd1 := fdCount(); fd1 > fd0 {
				c.Violationf("C09:"+svc+":fd-leak", "%s: %d descriptors before, %d after", svc, fd0, fd1)
			}
			c.Outcome(svc, "datagrams")
		})
	}
}

package props

import (
	"bytes"
	"encoding"
	"encoding/binary"
	"fmt"
	"io"
	"net"
	"reflect"
	"strings"
	"sync"
	"time"

	"github.com/honeytrap/honeytrap/listener"
	"github.com/honeytrap/honeytrap/listener/agent"

	"verif/h/core"
	"verif/h/lab"
	"verif/h/memconn"
)

// C16 — the agent tunnel relays each remote connection's bytes in order, to it
// alone; every protocol message decodes to what was encoded.
//
// (a) codec: encode/decode round trip of all message types over address
//     kinds, ports, payload and string lengths (the real Marshal/Unmarshal);
// (b) session: the real session loop (hook VerifServe) on an in-memory
//     connection; the harness is the scripted agent (frames in the real
//     type-length-value format, one transport write per frame part like the
//     real agent) and the Accept consumer / stub service. All merge orders of
//     the per-connection message sequences are enumerated.

func init() { register("C16", driver{run: runC16, needsStorage: true}) }

// ---------------------------------------------------------------- (a) codec

func c16Addrs() []net.Addr {
	var out []net.Addr
	ips := []net.IP{net.ParseIP("10.1.2.3").To4(), net.ParseIP("2001:db8::1"), net.ParseIP("::ffff:10.1.2.3")}
	for _, ip := range ips {
		for _, p := range []int{0, 1, 255, 256, 65535} {
			out = append(out, &net.TCPAddr{IP: ip, Port: p}, &net.UDPAddr{IP: ip, Port: p})
		}
	}
	return out
}

func addrEq(a, b net.Addr) bool {
	if a == nil || b == nil {
		return a == b
	}
	return a.Network() == b.Network() && a.String() == b.String()
}

func roundTrip(in encoding.BinaryMarshaler, out encoding.BinaryUnmarshaler) (err error) {
	defer func() {
		if r := recover(); r != nil {
			err = fmt.Errorf("panic: %v", r)
		}
	}()
	b, err := in.MarshalBinary()
	if err != nil {
		return err
	}
	return out.UnmarshalBinary(b)
}

func c16Codec(c *core.Ctx) {
	addrs := c16Addrs()
	var plens []int
	for _, n := range []int{0, 1, 2, 255, 256, 4000} {
		plens = append(plens, n)
	}
	for n := 4040; n <= 4100; n++ {
		plens = append(plens, n)
	}
	plens = append(plens, 8191, 8192, 16384, 65000)
	pay := func(n int) []byte {
		b := make([]byte, n)
		for i := range b {
			b[i] = byte(i*31 + 7)
		}
		return b
	}
	c.Case("codec/readwrite", func() {
		for ai := 0; ai < len(addrs); ai += 2 {
			la, ra := addrs[ai], addrs[(ai+7)%len(addrs)]
			for _, n := range plens {
				p := pay(n)
				for _, udp := range []bool{false, true} {
					c.Count("executions", 1)
					c.Count("transitions", 1)
					var gl, gr net.Addr
					var gp []byte
					var err error
					name := "ReadWriteTCP"
					if udp {
						name = "ReadWriteUDP"
						var out agent.ReadWriteUDP
						err = roundTrip(agent.ReadWriteUDP{Laddr: la, Raddr: ra, Payload: p}, &out)
						gl, gr, gp = out.Laddr, out.Raddr, out.Payload
					} else {
						var out agent.ReadWriteTCP
						err = roundTrip(agent.ReadWriteTCP{Laddr: la, Raddr: ra, Payload: p}, &out)
						gl, gr, gp = out.Laddr, out.Raddr, out.Payload
					}
					if err != nil {
						c.Violationf("C16:codec:"+name+":error", "%s{%v, %v, %d bytes}: %v", name, la, ra, n, err)
						continue
					}
					if !addrEq(gl, la) || !addrEq(gr, ra) {
						c.Violationf("C16:codec:"+name+":address", "%s{%v, %v, %d bytes} decodes to addresses %v, %v", name, la, ra, n, gl, gr)
					}
					if !bytes.Equal(gp, p) {
						first := 0
						for first < len(gp) && first < len(p) && gp[first] == p[first] {
							first++
						}
						c.Violationf("C16:codec:"+name+":payload", "%s with a %d-byte payload decodes to %d bytes, first difference at byte %d", name, n, len(gp), first)
					}
					c.Outcome(name, fmt.Sprint(n), la.String())
				}
			}
		}
		c.Sample(map[string]interface{}{"part": "codec", "message": "ReadWriteTCP", "laddr": "tcp [2001:db8::1]:65535", "payload_bytes": 4096})
	})
	c.Case("codec/hello-eof-ping", func() {
		for _, la := range addrs {
			for _, ra := range addrs {
				c.Count("executions", 2)
				c.Count("transitions", 2)
				var h agent.Hello
				if err := roundTrip(agent.Hello{Laddr: la, Raddr: ra}, &h); err != nil || !addrEq(h.Laddr, la) || !addrEq(h.Raddr, ra) {
					c.Violationf("C16:codec:Hello", "Hello{%v,%v} decodes to {%v,%v} (err %v)", la, ra, h.Laddr, h.Raddr, err)
				}
				var e agent.EOF
				if err := roundTrip(agent.EOF{Laddr: la, Raddr: ra}, &e); err != nil || !addrEq(e.Laddr, la) || !addrEq(e.Raddr, ra) {
					c.Violationf("C16:codec:EOF", "EOF{%v,%v} decodes to {%v,%v} (err %v)", la, ra, e.Laddr, e.Raddr, err)
				}
				c.Outcome("hello", la.String(), ra.String())
			}
		}
		var p agent.Ping
		if err := roundTrip(agent.Ping{}, &p); err != nil {
			c.Violationf("C16:codec:Ping", "Ping: %v", err)
		}
	})
	c.Case("codec/handshake", func() {
		strs := []string{"", "a", strings.Repeat("v", 255), strings.Repeat("w", 256), "1.0.0-β"}
		for _, v := range strs {
			for _, tok := range strs {
				for _, pv := range []int{0, 1, 65535} {
					c.Count("executions", 1)
					c.Count("transitions", 1)
					in := agent.Handshake{ProtocolVersion: pv, Version: v, ShortCommitID: "abc1234", CommitID: strings.Repeat("c", 40), Token: tok}
					var out agent.Handshake
					err := roundTrip(in, &out)
					if err != nil || !reflect.DeepEqual(in, out) {
						c.Violationf("C16:codec:Handshake", "Handshake{version %q (%d bytes), token %d bytes, protocol %d} decodes to {version %d bytes, token %d bytes, protocol %d} (err %v)", trunc(v, 10), len(v), len(tok), pv, len(out.Version), len(out.Token), out.ProtocolVersion, err)
					}
					c.Outcome("handshake", fmt.Sprint(len(v), len(tok), pv))
				}
			}
		}
		for n := 0; n <= 4; n++ {
			in := agent.HandshakeResponse{Addresses: c16Addrs()[:n*3]}
			var out agent.HandshakeResponse
			err := roundTrip(in, &out)
			ok := err == nil && len(out.Addresses) == len(in.Addresses)
			for i := 0; ok && i < len(in.Addresses); i++ {
				ok = addrEq(in.Addresses[i], out.Addresses[i])
			}
			if !ok {
				c.Violationf("C16:codec:HandshakeResponse", "HandshakeResponse with %d addresses decodes to %d (err %v)", len(in.Addresses), len(out.Addresses), err)
			}
			c.Count("executions", 1)
		}
	})
}

// ---------------------------------------------------------------- (b) session

type frame struct {
	typ  byte
	body []byte
}

func mkFrame(typ int, m encoding.BinaryMarshaler) frame {
	b, err := m.MarshalBinary()
	if err != nil {
		panic(err)
	}
	return frame{byte(typ), b}
}

// handshake body built by the harness (independent of Handshake.MarshalBinary)
func c16HandshakeBody(token string) []byte {
	var b bytes.Buffer
	w16 := func(v int) { binary.Write(&b, binary.LittleEndian, uint16(v)) }
	ws := func(s string) { w16(len(s)); b.WriteString(s) }
	w16(1)
	ws("1.0")
	ws("abc1234")
	ws("abc1234abc1234")
	ws(token)
	return b.Bytes()
}

type vconn struct {
	k     int
	laddr *net.TCPAddr
	raddr *net.TCPAddr
	data  [][]byte
	eof   bool // the agent sends EOF at the end
}

type stubConn struct {
	mu       sync.Mutex
	conn     net.Conn
	laddr    string
	raddr    string
	got      []byte
	eof      bool
	readErr  string
	reads    int
	panicked string
}

type c16Session struct {
	l       listener.Listener
	cli     *memconn.End
	stubs   []*stubConn
	udp     []*listener.DummyUDPConn
	mu      sync.Mutex
	rx      []byte
	servEnd bool
	q       func()
	holding bool
}

func newC16Session() *c16Session {
	l, err := agent.New()
	if err != nil {
		panic(err)
	}
	s := &c16Session{l: l, q: lab.Quiesce}
	srv, cli := memconn.Pair(&net.TCPAddr{IP: net.ParseIP("10.0.0.1"), Port: 1339}, &net.TCPAddr{IP: net.ParseIP("10.9.9.9"), Port: 50000})
	s.cli = cli
	go func() {
		fgEnter("session", "")
		agent.VerifServe(l, srv)
		s.mu.Lock()
		s.servEnd = true
		s.mu.Unlock()
	}()
	// Accept consumer + stub service: record everything read, answer every read with a tagged reply
	go func() {
		fgEnter("accept", "")
		for {
			conn, err := l.Accept()
			if err != nil {
				return
			}
			if d, ok := conn.(*listener.DummyUDPConn); ok {
				s.mu.Lock()
				s.udp = append(s.udp, d)
				s.mu.Unlock()
				d.Write(append([]byte("udp-reply:"), d.Buffer...))
				continue
			}
			// like the server's timeout wrapper, always read and write with a deadline (the
			// connection's no-deadline channel is a package variable, i.e. not a bubble channel)
			conn.SetDeadline(time.Now().Add(24 * time.Hour))
			sc := &stubConn{conn: conn, laddr: conn.LocalAddr().String(), raddr: conn.RemoteAddr().String()}
			s.mu.Lock()
			s.stubs = append(s.stubs, sc)
			s.mu.Unlock()
			go func() {
				fgEnter("stub", sc.raddr)
				// like the server's per-connection handler (server/honeytrap.go, handle): a panic
				// in the service ends this connection only
				defer func() {
					if r := recover(); r != nil {
						sc.mu.Lock()
						sc.panicked = fmt.Sprint(r)
						sc.mu.Unlock()
						conn.Close()
					}
				}()
				buf := make([]byte, c16StubRead)
				for {
					n, err := conn.Read(buf)
					sc.mu.Lock()
					sc.got = append(sc.got, buf[:n]...)
					sc.reads++
					sc.mu.Unlock()
					if n > 0 {
						// echo from the buffer the next Read will overwrite, as io.Copy, bufio and
						// the echo service do: Write must not keep a reference to it
						conn.Write(buf[:n])
					}
					if err != nil {
						sc.mu.Lock()
						sc.eof = err == io.EOF
						sc.readErr = err.Error()
						sc.mu.Unlock()
						return
					}
				}
			}()
		}
	}()
	return s
}

// send writes one frame the way the real agent does: three transport writes.
func (s *c16Session) send(f frame) {
	s.cli.Write([]byte{f.typ})
	s.q()
	l := make([]byte, 2)
	binary.LittleEndian.PutUint16(l, uint16(len(f.body)))
	s.cli.Write(l)
	s.q()
	if len(f.body) > 0 {
		s.cli.Write(f.body)
	}
	s.q()
	if !s.holding {
		s.drain()
	}
}

func (s *c16Session) drain() {
	s.cli.SetReadDeadline(timeNowPlusZero())
	buf := make([]byte, 65536)
	for {
		n, err := s.cli.Read(buf)
		s.rx = append(s.rx, buf[:n]...)
		if err != nil || n == 0 {
			return
		}
	}
}

// frames parses what the server has sent to the agent so far.
func (s *c16Session) frames() (out []frame, rest int) {
	b := s.rx
	for len(b) >= 3 {
		n := int(binary.LittleEndian.Uint16(b[1:3]))
		if len(b) < 3+n {
			break
		}
		out = append(out, frame{b[0], b[3 : 3+n]})
		b = b[3+n:]
	}
	return out, len(b)
}

func (e c16Env) Violationf(sig, format string, a ...interface{}) {
	e.viol(sig, fmt.Sprintf(format, a...))
}
func (e c16Env) Count(k string, n int64) { e.count(k, n) }
func (e c16Env) Outcome(parts ...string) { e.outcome(parts...) }

type c16Msg struct {
	v    int    // virtual connection index
	kind string // hello data eof
	n    int    // data index
}

// c16Env abstracts how the session scenario waits and reports, so that the same scenario and
// oracle run under the step-granular harness (wait = quiescence of the bubble) and under the
// fine-grain explorer (wait = drive the controlled scheduler along one schedule).
type c16Env struct {
	viol        func(sig, detail string)
	quiesce     func() // wait until the system has settled
	stepQuiesce func() // between the transport writes of one frame and between frames
	teardown    func() // before the harness closes the transport at the end
	count       func(k string, n int64)
	outcome     func(parts ...string)
	hold        *c16Hold
}

// c16Hold makes the agent a slow reader for the messages [from, to): it stops reading replies and
// its receive window holds `window` bytes, so the session's reply pump blocks in a transport write.
// Only used under the fine-grain scheduler: with a blocked pump the session loop and the service
// wait for each other on the connection's mutex, which is not a durable block for synctest.
type c16Hold struct{ from, to, window int }

// c16StubRead is the size of the slice the stub service reads into (a data message can be larger).
var c16StubRead = 8192

// fgEnter names the calling goroutine for the fine-grain scheduler (no-op in the ordinary build).
var fgEnter = func(fn, tag string) {}

func c16Check(c *core.Ctx, name string, vcs []*vconn, order []c16Msg, disconnectAfter int) {
	c16Run(c16Env{
		viol:        func(sig, detail string) { c.Violation(sig, detail) },
		quiesce:     lab.Quiesce,
		stepQuiesce: lab.Quiesce,
		teardown:    func() {},
		count:       c.Count,
		outcome:     c.Outcome,
	}, name, vcs, order, disconnectAfter)
}

func c16Run(c c16Env, name string, vcs []*vconn, order []c16Msg, disconnectAfter int) {
	s := newC16Session()
	s.q = c.stepQuiesce
	c.quiesce()
	s.send(frame{byte(agent.TypeHandshake), c16HandshakeBody("tok")})
	desc := func() string {
		var p []string
		for _, m := range order {
			p = append(p, fmt.Sprintf("c%d:%s", m.v, m.kind))
		}
		return fmt.Sprintf("%s [%s] disconnect-after=%d", name, strings.Join(p, " "), disconnectAfter)
	}
	sentData := map[int][]byte{}
	sentEOF := map[int]bool{}
	helloed := map[int]bool{}
	release := func() {
		if s.holding {
			s.holding = false
			s.cli.SetWindow(0)
			s.drain()
			c.quiesce()
			s.drain()
		}
	}
	for i, m := range order {
		if disconnectAfter >= 0 && i == disconnectAfter {
			break
		}
		if c.hold != nil && i == c.hold.to {
			release()
		}
		if c.hold != nil && i == c.hold.from {
			c.quiesce()
			s.drain()
			s.cli.SetWindow(c.hold.window)
			s.holding = true
		}
		vc := vcs[m.v]
		switch m.kind {
		case "hello":
			s.send(mkFrame(agent.TypeHello, agent.Hello{Laddr: vc.laddr, Raddr: vc.raddr}))
			helloed[m.v] = true
		case "data":
			s.send(mkFrame(agent.TypeReadWriteTCP, agent.ReadWriteTCP{Laddr: vc.laddr, Raddr: vc.raddr, Payload: vc.data[m.n]}))
			if helloed[m.v] && !sentEOF[m.v] {
				sentData[m.v] = append(sentData[m.v], vc.data[m.n]...)
			}
		case "eof":
			s.send(mkFrame(agent.TypeEOF, agent.EOF{Laddr: vc.laddr, Raddr: vc.raddr}))
			if helloed[m.v] {
				sentEOF[m.v] = true
			}
		case "stray":
			s.send(mkFrame(agent.TypeReadWriteTCP, agent.ReadWriteTCP{Laddr: &net.TCPAddr{IP: net.ParseIP("10.0.0.1"), Port: 9}, Raddr: &net.TCPAddr{IP: net.ParseIP("10.7.7.7"), Port: 7}, Payload: []byte("stray")}))
		case "ping":
			s.send(frame{byte(agent.TypePing), nil})
		}
		c.Count("transitions", 1)
	}
	c.quiesce()
	release()
	if disconnectAfter >= 0 {
		s.cli.Close()
		c.quiesce()
	}
	s.drain()
	c.Count("executions", 1)

	// ---- oracle
	s.mu.Lock()
	stubs := append([]*stubConn(nil), s.stubs...)
	s.mu.Unlock()
	byAddr := map[string][]*stubConn{}
	for _, sc := range stubs {
		byAddr[sc.laddr+"|"+sc.raddr] = append(byAddr[sc.laddr+"|"+sc.raddr], sc)
	}
	for v, vc := range vcs {
		key := vc.laddr.String() + "|" + vc.raddr.String()
		got := byAddr[key]
		if !helloed[v] {
			if len(got) != 0 {
				c.Violationf("C16:session:surfaced-unannounced", "%s: connection %d was never announced but surfaced", desc(), v)
			}
			continue
		}
		if len(got) != 1 {
			c.Violationf("C16:session:surface-count", "%s: announced connection %d (%s) surfaced %d times", desc(), v, key, len(got))
			continue
		}
		sc := got[0]
		sc.mu.Lock()
		data, eof, rerr := append([]byte(nil), sc.got...), sc.eof, sc.readErr
		panicked := sc.panicked
		sc.mu.Unlock()
		if panicked != "" && !(sentEOF[v] || disconnectAfter >= 0) {
			c.Violationf("C16:session:handler-panic", "%s: the service's handler for connection %d panicked (%s) although the connection was neither ended by the agent nor was the agent disconnected", desc(), v, panicked)
		}
		if panicked != "" {
			eof = true // a handler that panicked was ended by the server's recover
		}
		if !bytes.Equal(data, sentData[v]) {
			first := 0
			for first < len(data) && first < len(sentData[v]) && data[first] == sentData[v][first] {
				first++
			}
			c.Violationf("C16:session:bytes", "%s: the service read %d bytes on connection %d, the agent sent %d for it (first difference at %d)", desc(), len(data), v, len(sentData[v]), first)
		}
		shouldEnd := sentEOF[v] || disconnectAfter >= 0
		if shouldEnd && !eof {
			c.Violationf("C16:session:not-ended", "%s: connection %d should have ended (eof message=%v, agent disconnected=%v) but the service's read has not returned EOF (last error %q)", desc(), v, sentEOF[v], disconnectAfter >= 0, rerr)
		}
		if !shouldEnd && rerr != "" {
			c.Violationf("C16:session:ended-early", "%s: connection %d ended (%s) although neither an eof message for it nor a disconnect happened", desc(), v, rerr)
		}
	}
	// frames back to the agent: the first is the handshake response; replies are tagged with the right addresses, in order
	frs, rest := s.frames()
	if rest != 0 && disconnectAfter < 0 {
		c.Violationf("C16:session:torn-frame", "%s: %d trailing bytes that are no complete frame were sent to the agent", desc(), rest)
	}
	replies := map[string][]byte{}
	for i, f := range frs {
		if i == 0 {
			if int(f.typ) != agent.TypeHandshakeResponse {
				c.Violationf("C16:session:handshake-response", "%s: first frame to the agent has type %d", desc(), f.typ)
			}
			continue
		}
		if int(f.typ) == agent.TypeReadWriteTCP {
			var m agent.ReadWriteTCP
			if err := m.UnmarshalBinary(f.body); err != nil || m.Laddr == nil || m.Raddr == nil {
				c.Violationf("C16:session:reply-malformed", "%s: a data frame to the agent does not decode", desc())
				continue
			}
			k := m.Laddr.String() + "|" + m.Raddr.String()
			replies[k] = append(replies[k], m.Payload...)
		}
	}
	for v, vc := range vcs {
		if !helloed[v] || disconnectAfter >= 0 {
			continue
		}
		key := vc.laddr.String() + "|" + vc.raddr.String()
		// the stub echoes every read: what comes back tagged with this connection's addresses must be
		// exactly its bytes, in order
		if !bytes.Equal(replies[key], sentData[v]) {
			first := 0
			for first < len(replies[key]) && first < len(sentData[v]) && replies[key][first] == sentData[v][first] {
				first++
			}
			c.Violationf("C16:session:reply-routing", "%s: the service echoed connection %d's %d bytes; %d bytes came back tagged with its addresses (first difference at %d)", desc(), v, len(sentData[v]), len(replies[key]), first)
		}
	}
	for k := range replies {
		known := false
		for _, vc := range vcs {
			if k == vc.laddr.String()+"|"+vc.raddr.String() {
				known = true
			}
		}
		if !known {
			c.Violationf("C16:session:reply-to-unknown", "%s: a reply is tagged with addresses %s that no announced connection has", desc(), k)
		}
	}
	if disconnectAfter >= 0 {
		s.mu.Lock()
		ended := s.servEnd
		s.mu.Unlock()
		if !ended {
			c.Violationf("C16:session:loop-not-ended", "%s: the session loop is still running after the agent disconnected", desc())
		}
	}
	c.teardown()
	if disconnectAfter < 0 {
		s.cli.Close()
	}
	lab.Quiesce()
	c.Outcome(fmt.Sprint(len(stubs)), fmt.Sprint(len(frs)))
}

func vcs2(lens [][]int, share string) []*vconn {
	vcs := c16Vconns(len(lens), lens)
	if share == "remote" {
		for _, vc := range vcs[1:] {
			vc.raddr = vcs[0].raddr
		}
	}
	return vcs
}

func c16Vconns(n int, lens [][]int) []*vconn {
	var out []*vconn
	for k := 0; k < n; k++ {
		vc := &vconn{k: k, laddr: &net.TCPAddr{IP: net.ParseIP("10.0.0.1").To4(), Port: 2000 + k%2}, raddr: &net.TCPAddr{IP: net.ParseIP(fmt.Sprintf("10.5.0.%d", 1+k/2)).To4(), Port: 40000 + k}}
		for i, l := range lens[k] {
			b := make([]byte, l)
			for j := range b {
				b[j] = byte('A' + k*7 + i + j%13)
			}
			vc.data = append(vc.data, b)
		}
		out = append(out, vc)
	}
	return out
}

func runC16(c *core.Ctx) {
	c16Codec(c)

	// per-connection scripts: hello, data..., eof
	script := func(v int, ndata int, eof bool) []c16Msg {
		ms := []c16Msg{{v, "hello", 0}}
		for i := 0; i < ndata; i++ {
			ms = append(ms, c16Msg{v, "data", i})
		}
		if eof {
			ms = append(ms, c16Msg{v, "eof", 0})
		}
		return ms
	}
	type scen struct {
		name    string
		lens    [][]int
		eofs    []bool
		extra   []c16Msg // appended to connection 0's script
		maxMsgs int
		share   string // "remote": all connections have the same remote endpoint (one client port probing several sensor ports)
	}
	scens := []scen{
		{"1 connection", [][]int{{0, 1, 4000}}, []bool{true}, nil, 10, ""},
		{"2 connections", [][]int{{1, 4000}, {4000, 0}}, []bool{true, true}, nil, 10, ""},
		{"2 connections, one stays open", [][]int{{3, 5}, {7}}, []bool{true, false}, nil, 10, ""},
		{"3 connections", [][]int{{1}, {4000}, {2}}, []bool{true, true, false}, nil, 10, ""},
		{"2 connections + stray data + ping", [][]int{{4}, {6}}, []bool{true, true}, []c16Msg{{0, "stray", 0}, {0, "ping", 0}}, 10, ""},
		{"2 connections, first stays open", [][]int{{5, 6}, {1}}, []bool{false, true}, nil, 10, ""},
		{"2 connections sharing the remote endpoint", [][]int{{3, 5}, {7}}, []bool{true, false}, nil, 10, "remote"},
		{"2 connections sharing the remote endpoint, both end", [][]int{{2}, {4, 1}}, []bool{true, true}, nil, 10, "remote"},
	}
	if c.Thorough() {
		scens = append(scens, scen{"4 connections", [][]int{{1}, {2}, {3}, {4}}, []bool{true, false, true, true}, nil, 12, ""},
			scen{"3 connections x 2 data", [][]int{{1, 4000}, {4000, 1}, {0, 9}}, []bool{true, true, true}, nil, 12, ""})
	}
	for _, sc := range scens {
		sc := sc
		n := len(sc.lens)
		var scripts [][]c16Msg
		var lens []int
		for v := 0; v < n; v++ {
			s := script(v, len(sc.lens[v]), sc.eofs[v])
			if v == 0 {
				s = append(s, sc.extra...)
			}
			scripts = append(scripts, s)
			lens = append(lens, len(s))
		}
		// split the interleavings over cases by their first two choices
		for pa := 0; pa < n; pa++ {
			for pb := 0; pb < n; pb++ {
				pa, pb := pa, pb
				c.Case(fmt.Sprintf("session/%s/prefix%d%d", sc.name, pa, pb), func() {
					interleavings(lens, func(order []int) {
						if order[0] != pa || (len(order) > 1 && order[1] != pb) {
							return
						}
						pos := make([]int, n)
						var msgs []c16Msg
						for _, who := range order {
							msgs = append(msgs, scripts[who][pos[who]])
							pos[who]++
						}
						vcs := c16Vconns(n, sc.lens)
						if sc.share == "remote" {
							for _, vc := range vcs[1:] {
								vc.raddr = vcs[0].raddr
							}
						}
						c16Check(c, sc.name, vcs, msgs, -1)
						if strings.HasPrefix(sc.name, "1 connection") || sc.name == "2 connections" {
							// the same with a service that reads 7 bytes at a time: a blocked reader is woken
							// by a message larger than its slice
							c16StubRead = 7
							c16Check(c, sc.name+" (service reads 7 bytes at a time)", vcs2(sc.lens, sc.share), msgs, -1)
							c16StubRead = 8192
						}
					})
					if c.WantSample() && pa == 0 && pb == 1 {
						c.Sample(map[string]interface{}{"part": "session", "scenario": sc.name, "messages_per_connection": lens, "orders": "all merges"})
					}
				})
			}
		}
	}
	// agent disconnect at every position of a fixed interleaving
	c.Case("session/disconnect", func() {
		lens := [][]int{{1, 4000}, {2}}
		scripts := [][]c16Msg{script(0, 2, true), script(1, 1, false)}
		interleavings([]int{4, 2}, func(order []int) {
			pos := make([]int, 2)
			var msgs []c16Msg
			for _, who := range order {
				msgs = append(msgs, scripts[who][pos[who]])
				pos[who]++
			}
			for cut := 0; cut <= len(msgs); cut++ {
				c16Check(c, "disconnect", c16Vconns(2, lens), msgs, cut)
			}
		})
	})
	// duplicate hello and UDP relay: no crash, UDP reply returns tagged
	c.Case("session/udp+dup", func() {
		s := newC16Session()
		lab.Quiesce()
		s.send(frame{byte(agent.TypeHandshake), c16HandshakeBody("tok")})
		la, ra := &net.UDPAddr{IP: net.ParseIP("10.0.0.1").To4(), Port: 53}, &net.UDPAddr{IP: net.ParseIP("10.5.0.9").To4(), Port: 5353}
		s.send(mkFrame(agent.TypeReadWriteUDP, agent.ReadWriteUDP{Laddr: la, Raddr: ra, Payload: []byte("query")}))
		vc := c16Vconns(1, [][]int{{3}})[0]
		s.send(mkFrame(agent.TypeHello, agent.Hello{Laddr: vc.laddr, Raddr: vc.raddr}))
		s.send(mkFrame(agent.TypeHello, agent.Hello{Laddr: vc.laddr, Raddr: vc.raddr}))
		s.send(mkFrame(agent.TypeReadWriteTCP, agent.ReadWriteTCP{Laddr: vc.laddr, Raddr: vc.raddr, Payload: vc.data[0]}))
		c.Count("executions", 1)
		frs, _ := s.frames()
		found := false
		for _, f := range frs {
			if int(f.typ) == agent.TypeReadWriteUDP {
				var m agent.ReadWriteUDP
				if m.UnmarshalBinary(f.body) == nil && addrEq(m.Laddr, la) && addrEq(m.Raddr, ra) && string(m.Payload) == "udp-reply:query" {
					found = true
				}
			}
		}
		if !found {
			c.Violationf("C16:session:udp-relay", "a datagram relayed by the agent was delivered to the services, but their reply did not come back tagged with the datagram's addresses")
		}
		s.mu.Lock()
		nudp := len(s.udp)
		s.mu.Unlock()
		if nudp != 1 {
			c.Violationf("C16:session:udp-surface", "one relayed datagram surfaced %d times", nudp)
		}
		s.cli.Close()
		lab.Quiesce()
	})
}

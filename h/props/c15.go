package props

import (
	"bufio"
	"bytes"
	"fmt"
	"io"
	"net/http"
	"sort"
	"strings"
	"sync"

	"verif/h/core"
	"verif/h/lab"
	"verif/h/memconn"
)

// C15 — proxy services relay requests and replies unchanged to the configured
// backend. Part (a) runs in the bubble with the "verif-mem" director (both
// legs in memory, so segmentation is enumerated on both); part "fwd" (real
// clock) runs the real forward director against loopback backend and decoy
// listeners.

func init() {
	register("C15", driver{run: runC15, needsStorage: true})
}

func proxyToml(svcType string, port int, proto string) string {
	return fmt.Sprintf(`
[director.mem]
type="verif-mem"

[service.px]
type=%q
director="mem"

[[port]]
port="%s/%d"
services=["px"]

[channel.cap]
type="verif-capture"
id="cap"

[[filter]]
channel=["cap"]
`, svcType, proto, port)
}

func startProxy(svcType string, port int, proto string) *lab.Server {
	lab.ResetEvents()
	s, err := lab.Start(proxyToml(svcType, port, proto))
	if err != nil {
		panic(err)
	}
	lab.Quiesce()
	if err := s.Attach(); err != nil {
		panic(err)
	}
	return s
}

// ---------------------------------------------------------------- HTTP

type hreq struct {
	method, target string
	headers        []string // "Name: value"
	body           string
	chunked        bool
}

func (r hreq) wire() string {
	return httpReq(r.method, r.target, "backend.example", r.headers, r.body, r.chunked)
}

func (r hreq) String() string {
	return fmt.Sprintf("%s %s hdrs=%d body=%d chunked=%v", r.method, r.target, len(r.headers), len(r.body), r.chunked)
}

// canonical view of a request as parsed by an HTTP parser
func canonReq(req *http.Request, body []byte) string {
	var hs []string
	for k, vs := range req.Header {
		switch k {
		case "Content-Length", "Transfer-Encoding", "Connection", "Host":
			continue
		}
		for _, v := range vs {
			hs = append(hs, k+": "+v)
		}
	}
	sort.Strings(hs)
	return fmt.Sprintf("%s %s host=%s [%s] body=%x", req.Method, req.RequestURI, req.Host, strings.Join(hs, "|"), body)
}

func parseReqs(wire []byte) (out []string, err error) {
	br := bufio.NewReader(bytes.NewReader(wire))
	for {
		req, e := http.ReadRequest(br)
		if e == io.EOF {
			return out, nil
		}
		if e != nil {
			return out, e
		}
		b, _ := io.ReadAll(req.Body)
		out = append(out, canonReq(req, b))
	}
}

type hresp struct {
	status  int
	headers []string
	body    string
}

func (r hresp) wire() string {
	var b strings.Builder
	fmt.Fprintf(&b, "HTTP/1.1 %d %s\r\n", r.status, http.StatusText(r.status))
	for _, h := range r.headers {
		b.WriteString(h + "\r\n")
	}
	fmt.Fprintf(&b, "Content-Length: %d\r\n\r\n%s", len(r.body), r.body)
	return b.String()
}

func canonResp(resp *http.Response, body []byte) string {
	var hs []string
	for k, vs := range resp.Header {
		switch k {
		case "Content-Length", "Transfer-Encoding", "Connection":
			continue
		}
		for _, v := range vs {
			hs = append(hs, k+": "+v)
		}
	}
	sort.Strings(hs)
	return fmt.Sprintf("%d [%s] body=%x", resp.StatusCode, strings.Join(hs, "|"), body)
}

// httpBackend serves scripted replies on every dialled backend connection and records the requests.
type httpBackend struct {
	mu      sync.Mutex
	got     []string // canonical requests in arrival order (all connections)
	perConn map[string][]string
	replies []hresp
	next    int
}

func (hb *httpBackend) serve(bc *lab.BackendConn) {
	br := bufio.NewReader(bc.Backend)
	for {
		req, err := http.ReadRequest(br)
		if err != nil {
			return
		}
		b, _ := io.ReadAll(req.Body)
		hb.mu.Lock()
		cr := canonReq(req, b)
		hb.got = append(hb.got, cr)
		hb.perConn[bc.For] = append(hb.perConn[bc.For], cr)
		rp := hb.replies[hb.next%len(hb.replies)]
		hb.next++
		hb.mu.Unlock()
		w := rp.wire()
		if req.Method == "HEAD" {
			w = w[:len(w)-len(rp.body)]
		}
		bc.Backend.Write([]byte(w))
	}
}

func c15HTTPRun(c *core.Ctx, name string, reqs []hreq, replies []hresp, del delivery, proxyMaxRead int) {
	s := startProxy("http-proxy", 8080, "tcp")
	defer s.Stop()
	hb := &httpBackend{perConn: map[string][]string{}, replies: replies}
	lab.ProxyMaxRead = proxyMaxRead
	lab.OnDial(hb.serve)
	defer func() { lab.ProxyMaxRead = 0; lab.OnDial(nil) }()
	conn := s.DialTCP(serverIP, 8080, "10.1.0.10", 40000)
	lab.Quiesce()
	for _, sg := range del.segs {
		conn.Send(sg)
		if del.lock {
			lab.Quiesce()
		}
		c.Count("transitions", 1)
	}
	lab.Quiesce()
	conn.CloseWrite()
	settleConn(conn)
	c.Count("executions", 1)
	desc := fmt.Sprintf("%s requests=%v delivery=%s reply-read-size=%d", name, reqs, del.name, proxyMaxRead)
	// what the backend received
	var wire []byte
	for _, r := range reqs {
		wire = append(wire, r.wire()...)
	}
	want, err := parseReqs(wire)
	if err != nil {
		panic(fmt.Sprint("harness generated an unparsable request: ", err))
	}
	hb.mu.Lock()
	got := append([]string(nil), hb.got...)
	hb.mu.Unlock()
	kind := ""
	if strings.Join(got, "\n") != strings.Join(want, "\n") {
		kind = "fields"
		if len(got) < len(want) {
			kind = "lost"
		} else if len(got) > len(want) {
			kind = "extra"
		}
		how := del.name
		if strings.HasPrefix(how, "cut@") {
			how = "cut"
		}
		c.Violationf("C15:http:request-"+kind+":"+how, "%s: backend received %d requests, client sent %d; %s", desc, len(got), len(want), firstDiff(got, want))
	}
	// what the client received
	var wantResp []string
	for i := range want {
		rp := replies[i%len(replies)]
		body := rp.body
		if reqs[i].method == "HEAD" {
			body = ""
		}
		resp, _ := http.ReadResponse(bufio.NewReader(strings.NewReader(rp.wire())), &http.Request{Method: reqs[i].method})
		wantResp = append(wantResp, canonResp(resp, []byte(body)))
	}
	var gotResp []string
	br := bufio.NewReader(bytes.NewReader(conn.Output()))
	for i := 0; ; i++ {
		m := "GET"
		if i < len(reqs) {
			m = reqs[i].method
		}
		resp, err := http.ReadResponse(br, &http.Request{Method: m})
		if err != nil {
			break
		}
		b, _ := io.ReadAll(resp.Body)
		gotResp = append(gotResp, canonResp(resp, b))
	}
	if kind == "" && strings.Join(gotResp, "\n") != strings.Join(wantResp, "\n") {
		c.Violationf("C15:http:reply", "%s: client received %d replies, backend sent %d; %s", desc, len(gotResp), len(wantResp), firstDiff(gotResp, wantResp))
	}
	// one event per relayed request, attributed to the client
	n := 0
	for _, e := range allEvents() {
		if lab.Str(e, "service") == "http-proxy" {
			n++
			if lab.Str(e, "remote-addr") != "10.1.0.10:40000" {
				c.Violationf("C15:http:event-address", "%s: event names remote address %q", desc, lab.Str(e, "remote-addr"))
			}
		}
	}
	if kind == "" && n != len(want) {
		c.Violationf("C15:http:event-count", "%s: %d events for %d relayed requests", desc, n, len(want))
	}
	for _, d := range lab.Dials() {
		if d.For != "10.1.0.10:40000" {
			c.Violationf("C15:http:dial", "%s: backend connection dialled for %s", desc, d.For)
		}
	}
	c.Outcome("http", strings.Join(got, "\n"), strings.Join(gotResp, "\n"))
}

func c15HTTP(c *core.Ctx) {
	hdrAlpha := []string{"X-A: 1", "X-A: 2", "User-Agent: curl/8", "Accept: */*", "Cookie: k=v; j=w", "X-Empty:"}
	var hdrSets [][]string
	hdrSets = append(hdrSets, nil)
	for i := range hdrAlpha {
		hdrSets = append(hdrSets, []string{hdrAlpha[i]})
		for j := i + 1; j < len(hdrAlpha); j++ {
			hdrSets = append(hdrSets, []string{hdrAlpha[i], hdrAlpha[j]})
		}
	}
	hdrSets = append(hdrSets, []string{"X-A: 1", "X-A: 2", "User-Agent: curl/8"}, []string{"Accept: */*", "Cookie: k=v; j=w", "X-Empty:"})
	big := strings.Repeat("0123456789abcdef", 4096) // 64 KiB
	bodies := []string{"", "x", strings.Repeat("b", 1024), big}
	replies := []hresp{{200, []string{"Server: b", "X-R: 1", "X-R: 2"}, "ok"}, {404, []string{"Server: b"}, ""}, {200, nil, big}, {500, []string{"Set-Cookie: a=b"}, "e"}}

	var gen []hreq
	for _, m := range []string{"GET", "POST", "PUT", "HEAD"} {
		for ti, t := range []string{"/", "/a/b?c=d&e=f", "/%7Euser/x.y"} {
			for hi, hs := range hdrSets {
				for bi, b := range bodies {
					if (m == "GET" || m == "HEAD") && b != "" {
						continue
					}
					if !c.Thorough() && (ti+hi+bi)%3 != 0 && bi == 3 {
						continue
					}
					gen = append(gen, hreq{m, t, hs, b, false})
					if b != "" && bi < 3 {
						gen = append(gen, hreq{m, t, hs, b, true})
					}
				}
			}
		}
	}
	whole := func(rs []hreq) delivery {
		var w []byte
		var lock [][]byte
		for _, r := range rs {
			w = append(w, r.wire()...)
			lock = append(lock, []byte(r.wire()))
		}
		_ = lock
		return delivery{"whole", [][]byte{w}, false}
	}
	lockstep := func(rs []hreq) delivery {
		var lock [][]byte
		for _, r := range rs {
			lock = append(lock, []byte(r.wire()))
		}
		return delivery{"lockstep", lock, true}
	}
	// 1. every generated request alone, lock-step, x reply read sizes
	chunk := 24
	for base := 0; base < len(gen); base += chunk {
		base := base
		c.Case(fmt.Sprintf("http/single/%d", base), func() {
			for i := base; i < base+chunk && i < len(gen); i++ {
				for _, mr := range []int{0, 1, 1000} {
					if mr == 1 && len(gen[i].body) > 2000 {
						continue
					}
					c15HTTPRun(c, "single", []hreq{gen[i]}, replies, lockstep([]hreq{gen[i]}), mr)
				}
			}
			if c.WantSample() {
				c.Sample(map[string]interface{}{"part": "http-proxy", "request": gen[base].String(), "reply_read_sizes": []int{0, 1, 1000}})
			}
		})
	}
	// 2. sequences of <= 3 over a small alphabet, lock-step and pipelined; cut-1 at every byte for length <= 2
	small := []hreq{
		{"GET", "/", nil, "", false}, {"POST", "/p", []string{"X-A: 1", "X-A: 2"}, "hello", false}, {"PUT", "/c", []string{"User-Agent: ua"}, "chunked-body", true},
		{"HEAD", "/h", []string{"Accept: */*"}, "", false}, {"POST", "/big", nil, strings.Repeat("z", 1024), false},
	}
	for ai, a := range small {
		ai, a := ai, a
		c.Case(fmt.Sprintf("http/seq/first%d", ai), func() {
			for _, b := range small {
				seq := []hreq{a, b}
				c15HTTPRun(c, "seq2", seq, replies, lockstep(seq), 0)
				c15HTTPRun(c, "seq2", seq, replies, whole(seq), 0)
				c15HTTPRun(c, "seq2", seq, replies, whole(seq), 7)
				var w []byte
				for _, r := range seq {
					w = append(w, r.wire()...)
				}
				if len(w) < 400 || c.Thorough() {
					for p := 1; p < len(w); p++ {
						c15HTTPRun(c, "seq2", seq, replies, delivery{fmt.Sprintf("cut@%d", p), [][]byte{w[:p], w[p:]}, true}, 0)
					}
				}
				for _, d := range small {
					seq3 := []hreq{a, b, d}
					c15HTTPRun(c, "seq3", seq3, replies, lockstep(seq3), 0)
					c15HTTPRun(c, "seq3", seq3, replies, whole(seq3), 1000)
				}
			}
		})
	}
	// 3. 2-3 concurrent clients, step interleavings of (dial, request, request, close)
	c.Case("http/concurrent", func() {
		for _, k := range []int{2, 3} {
			lens := make([]int, k)
			for i := range lens {
				lens[i] = 3
			}
			interleavings(lens, func(order []int) {
				s := startProxy("http-proxy", 8080, "tcp")
				hb := &httpBackend{perConn: map[string][]string{}, replies: []hresp{{200, nil, "r"}}}
				lab.OnDial(hb.serve)
				conns := make([]*memconn.Conn, k)
				step := make([]int, k)
				for _, who := range order {
					switch step[who] {
					case 0:
						conns[who] = s.DialTCP(serverIP, 8080, fmt.Sprintf("10.1.0.%d", 10+who), 40000+who)
					case 1:
						conns[who].Send([]byte(hreq{"POST", fmt.Sprintf("/client%d", who), nil, fmt.Sprintf("body-of-%d", who), false}.wire()))
					case 2:
						conns[who].CloseWrite()
					}
					step[who]++
					lab.Quiesce()
					c.Count("transitions", 1)
				}
				for _, cn := range conns {
					settleConn(cn)
				}
				c.Count("executions", 1)
				hb.mu.Lock()
				for who := 0; who < k; who++ {
					got := hb.perConn[fmt.Sprintf("10.1.0.%d:%d", 10+who, 40000+who)]
					if len(got) != 1 || !strings.Contains(got[0], fmt.Sprintf("/client%d", who)) || !strings.Contains(got[0], fmt.Sprintf("%x", fmt.Sprintf("body-of-%d", who))) {
						c.Violationf("C15:http:concurrent", "%d clients, order %v: the backend connection opened for client %d received %v", k, order, who, got)
					}
				}
				hb.mu.Unlock()
				lab.OnDial(nil)
				s.Stop()
			})
		}
	})
}

// ---------------------------------------------------------------- copy / dns-proxy

func c15Copy(c *core.Ctx) {
	streams := [][]byte{[]byte("x"), []byte("hello\r\nworld\x00\xff"), bytes.Repeat([]byte{0, 1, 2, 0xfe, 0xff}, 1000), bytes.Repeat([]byte("0123456789abcdef"), 4096)}
	c.Case("copy/tcp", func() {
		for si, st := range streams {
			for _, cut := range []int{0, 1, len(st) / 2} {
				for _, mr := range []int{0, 1, 1000} {
					if mr == 1 && len(st) > 3000 {
						continue
					}
					s := startProxy("copy", 9000, "tcp")
					var mu sync.Mutex
					var got []byte
					reply := append([]byte("reply-to:"), st[:min(len(st), 50)]...)
					lab.ProxyMaxRead = mr
					lab.OnDial(func(bc *lab.BackendConn) {
						buf := make([]byte, 70000)
						replied := false
						for {
							n, err := bc.Backend.Read(buf)
							mu.Lock()
							got = append(got, buf[:n]...)
							done := len(got) >= len(st)
							mu.Unlock()
							if done && !replied {
								replied = true
								bc.Backend.Write(reply)
							}
							if err != nil {
								bc.Backend.Close()
								return
							}
						}
					})
					conn := s.DialTCP(serverIP, 9000, "10.1.0.10", 40000)
					lab.Quiesce()
					if cut > 0 && cut < len(st) {
						conn.Send(st[:cut])
						lab.Quiesce()
						conn.Send(st[cut:])
					} else {
						conn.Send(st)
					}
					lab.Quiesce()
					out := conn.Output()
					conn.CloseWrite()
					settleConn(conn)
					c.Count("executions", 1)
					c.Count("transitions", 2)
					mu.Lock()
					g := append([]byte(nil), got...)
					mu.Unlock()
					desc := fmt.Sprintf("copy over TCP: stream #%d (%d bytes) cut at %d, reply read size %d", si, len(st), cut, mr)
					if !bytes.Equal(g, st) {
						c.Violationf("C15:copy:tcp-request", "%s: the backend received %d bytes of %d (%d backend connections dialled)", desc, len(g), len(st), len(lab.Dials()))
					} else if !bytes.Equal(out, reply) {
						c.Violationf("C15:copy:tcp-reply", "%s: the client received %d bytes, the backend replied %d", desc, len(out), len(reply))
					}
					lab.ProxyMaxRead = 0
					lab.OnDial(nil)
					s.Stop()
					c.Outcome("copy", fmt.Sprint(si, cut, mr, len(g)))
				}
			}
		}
	})
	c.Case("dns-proxy/udp", func() {
		queries := [][]byte{dnsQuery(0x1234, "example.com", 1), dnsQuery(1, "a.very.long.name.example.org", 16), dnsQuery(65535, "x", 255)}
		// datagram sizes around the usual buffer sizes, in both directions (EDNS0 / TCP-sized messages)
		type dq struct {
			q      []byte
			ansPad int
		}
		var dqs []dq
		for _, q := range queries {
			dqs = append(dqs, dq{q, 0})
		}
		for _, n := range []int{500, 4084, 4085, 6000, 60000} {
			dqs = append(dqs, dq{queries[0], n})
		}
		for _, n := range []int{512, 4096, 4097, 20000, 65000} {
			q := append([]byte(nil), queries[0]...)
			for len(q) < n {
				q = append(q, byte('a'+len(q)%26))
			}
			dqs = append(dqs, dq{q, 0})
		}
		for qi, x := range dqs {
			q := x.q
			s := startProxy("dns-proxy", 53, "udp")
			var mu sync.Mutex
			var got [][]byte
			answer := append(append([]byte(nil), q[:2]...), 0x81, 0x80, 0, 1, 0, 0, 0, 0, 0, 0)
			for i := 0; i < x.ansPad; i++ {
				answer = append(answer, byte('A'+i%26))
			}
			lab.OnDial(func(bc *lab.BackendConn) {
				buf := make([]byte, 70000)
				n, _ := bc.Backend.Read(buf)
				mu.Lock()
				got = append(got, append([]byte(nil), buf[:n]...))
				mu.Unlock()
				bc.Backend.Write(answer)
			})
			d := s.SendUDP(serverIP, 53, "10.1.0.10", 40000, q)
			lab.Quiesce()
			c.Count("executions", 1)
			c.Count("transitions", 1)
			mu.Lock()
			g := got
			mu.Unlock()
			desc := fmt.Sprintf("dns-proxy datagram #%d (%d bytes, answer %d bytes)", qi, len(q), len(answer))
			if len(g) != 1 || !bytes.Equal(g[0], q) {
				c.Violationf("C15:dns-proxy:request", "%s: backend received %d datagrams (first has %d bytes), client sent %d bytes", desc, len(g), len(firstOr(g)), len(q))
			}
			rs := d.Replies()
			if len(rs) != 1 || !bytes.Equal(rs[0].Data, answer) || rs[0].To != "10.1.0.10:40000" {
				c.Violationf("C15:dns-proxy:reply", "%s: client received %d datagrams (first has %d bytes), backend answered %d bytes", desc, len(rs), replyLen(rs), len(answer))
			}
			n := 0
			for _, e := range allEvents() {
				if lab.Str(e, "category") == "dns-proxy" && lab.Str(e, "source-ip") == "10.1.0.10" {
					n++
				}
			}
			if n != 1 {
				c.Violationf("C15:dns-proxy:event", "%s: %d events attributed to the client", desc, n)
			}
			lab.OnDial(nil)
			s.Stop()
			c.Outcome("dns", fmt.Sprint(qi))
		}
	})
	c.Case("copy/udp", func() {
		for qi, q := range [][]byte{[]byte("d"), bytes.Repeat([]byte{0xff, 0}, 600)} {
			s := startProxy("copy", 9001, "udp")
			var mu sync.Mutex
			var got []byte
			lab.OnDial(func(bc *lab.BackendConn) {
				buf := make([]byte, 70000)
				n, _ := bc.Backend.Read(buf)
				mu.Lock()
				got = append(got, buf[:n]...)
				mu.Unlock()
				bc.Backend.Write([]byte("pong"))
				bc.Backend.Close()
			})
			d := s.SendUDP(serverIP, 9001, "10.1.0.10", 40000, q)
			lab.Quiesce()
			c.Count("executions", 1)
			mu.Lock()
			g := append([]byte(nil), got...)
			mu.Unlock()
			if !bytes.Equal(g, q) {
				c.Violationf("C15:copy:udp-request", "copy datagram #%d: backend received %d bytes of %d", qi, len(g), len(q))
			}
			if rs := d.Replies(); len(rs) != 1 || string(rs[0].Data) != "pong" {
				c.Violationf("C15:copy:udp-reply", "copy datagram #%d: client received %v", qi, rs)
			}
			lab.OnDial(nil)
			s.Stop()
		}
	})
}

func firstOr(g [][]byte) []byte {
	if len(g) == 0 {
		return nil
	}
	return g[0]
}

func runC15(c *core.Ctx) {
	c15HTTP(c)
	c15Copy(c)
	c15SSH(c)
}

func replyLen(rs []lab.UDPReply) int {
	if len(rs) == 0 {
		return 0
	}
	return len(rs[0].Data)
}

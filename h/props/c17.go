package props

import (
	"encoding/binary"
	"fmt"
	"strings"

	"github.com/honeytrap/honeytrap/services/decoder"

	"verif/h/core"
)

// C17 — the bounds-checked binary decoder stays in bounds (explicit-state
// search over the real decoder against a reference), IPP requests decode to
// what was encoded (c17_ipp.go).

func init() {
	register("C17", driver{run: runC17, needsStorage: true})
}

type decOp struct {
	kind string // Byte Int16 Int32 Uint32 PeekByte PeekInt16 Data Copy Seek
	n    int
}

func (o decOp) String() string {
	if o.kind == "Copy" || o.kind == "Seek" {
		return fmt.Sprintf("%s(%d)", o.kind, o.n)
	}
	return o.kind
}

func decAlphabet() []decOp {
	ops := []decOp{{"Byte", 0}, {"Int16", 0}, {"Int32", 0}, {"Uint32", 0}, {"PeekByte", 0}, {"PeekInt16", 0}, {"Data", 0}}
	for n := -3; n <= 8; n++ {
		ops = append(ops, decOp{"Copy", n})
	}
	for n := -3; n <= 8; n++ {
		ops = append(ops, decOp{"Seek", n})
	}
	return ops
}

// refDec is the boring reference: a buffer, a cursor, a sticky error flag.
type refDec struct {
	buf []byte
	off int
	err bool
}

type decRes struct {
	val   uint64 // numeric result (sign-extended as the method's type prescribes)
	bytes string // Copy / Data result
	isNil bool   // Copy returned nil
}

func (r *refDec) fits(n int) bool { return n >= 0 && r.off+n <= len(r.buf) }

func (r *refDec) apply(o decOp) decRes {
	switch o.kind {
	case "Byte":
		if !r.fits(1) {
			r.err = true
			return decRes{}
		}
		v := r.buf[r.off]
		r.off++
		return decRes{val: uint64(v)}
	case "PeekByte":
		if !r.fits(1) {
			r.err = true
			return decRes{}
		}
		return decRes{val: uint64(r.buf[r.off])}
	case "Int16":
		if !r.fits(2) {
			r.err = true
			return decRes{}
		}
		v := int16(binary.BigEndian.Uint16(r.buf[r.off:]))
		r.off += 2
		return decRes{val: uint64(int64(v))}
	case "PeekInt16":
		if !r.fits(2) {
			r.err = true
			return decRes{}
		}
		return decRes{val: uint64(int64(int16(binary.BigEndian.Uint16(r.buf[r.off:]))))}
	case "Int32":
		if !r.fits(4) {
			r.err = true
			return decRes{}
		}
		v := int32(binary.BigEndian.Uint32(r.buf[r.off:]))
		r.off += 4
		return decRes{val: uint64(int64(v))}
	case "Uint32":
		if !r.fits(4) {
			r.err = true
			return decRes{}
		}
		v := binary.BigEndian.Uint32(r.buf[r.off:])
		r.off += 4
		return decRes{val: uint64(v)}
	case "Copy":
		if !r.fits(o.n) {
			r.err = true
			return decRes{isNil: true}
		}
		b := string(r.buf[r.off : r.off+o.n])
		r.off += o.n
		return decRes{bytes: b}
	case "Seek":
		p := r.off + o.n
		if p < 0 || p > len(r.buf) {
			r.err = true
			return decRes{}
		}
		r.off = p
		return decRes{}
	case "Data":
		l := r.apply(decOp{"Int16", 0})
		c := r.apply(decOp{"Copy", int(int16(l.val))})
		return decRes{bytes: c.bytes}
	}
	panic("unknown op")
}

// applyReal runs one operation on the real decoder; a panic is "fails
// abruptly" and is returned as text.
func applyReal(d *decoder.Decode, o decOp) (res decRes, panicked string) {
	defer func() {
		if r := recover(); r != nil {
			panicked = fmt.Sprint(r)
		}
	}()
	switch o.kind {
	case "Byte":
		res.val = uint64(d.Byte())
	case "PeekByte":
		res.val = uint64(d.PeekByte())
	case "Int16":
		res.val = uint64(int64(d.Int16()))
	case "PeekInt16":
		res.val = uint64(int64(d.PeekInt16()))
	case "Int32":
		res.val = uint64(int64(d.Int32()))
	case "Uint32":
		res.val = uint64(d.Uint32())
	case "Copy":
		b := d.Copy(o.n)
		res.isNil = b == nil
		res.bytes = string(b)
	case "Seek":
		d.Seek(o.n)
	case "Data":
		res.bytes = d.Data()
	}
	return
}

// mkBuf returns buf with cap == len inside a larger poisoned array, so any
// slice expression past the end panics instead of silently reading on.
func mkBuf(b []byte) []byte {
	back := make([]byte, len(b)+16)
	for i := range back {
		back[i] = 0xEE
	}
	copy(back[8:], b)
	return back[8 : 8+len(b) : 8+len(b)]
}

// compare checks the real decoder's result and post-state against the model.
func decCompare(c *core.Ctx, buf []byte, path []decOp, o decOp, d *decoder.Decode, got decRes, pan string, ref *refDec, want decRes, errBefore bool) bool {
	where := func() string {
		var ps []string
		for _, p := range path {
			ps = append(ps, p.String())
		}
		return fmt.Sprintf("buf=%x ops=[%s] then %s", buf, strings.Join(ps, " "), o)
	}
	sigop := o.kind
	if (o.kind == "Copy" || o.kind == "Seek") && o.n < 0 {
		sigop += "(neg)"
	}
	if pan != "" {
		c.Violationf("C17:decoder:panic:"+sigop, "%s: fails abruptly: %s", where(), pan)
		return false
	}
	if got.val != want.val || got.bytes != want.bytes {
		c.Violationf("C17:decoder:value:"+sigop, "%s: returned (%d,%q), reference (%d,%q)", where(), got.val, got.bytes, want.val, want.bytes)
		return false
	}
	if o.kind == "Copy" && got.isNil != want.isNil && want.isNil {
		c.Violationf("C17:decoder:value:"+sigop, "%s: a copy that does not fit must return nil", where())
		return false
	}
	if avail := d.Available(); avail != len(buf)-ref.off {
		c.Violationf("C17:decoder:cursor:"+sigop, "%s: Available()=%d, reference %d", where(), avail, len(buf)-ref.off)
		return false
	}
	hasErr := d.LastError() != nil
	if hasErr != ref.err {
		c.Violationf("C17:decoder:error:"+sigop, "%s: LastError set=%v, reference %v", where(), hasErr, ref.err)
		return false
	}
	return true
}

type decState struct {
	off int
	err bool
}

// decBFS explores, for one buffer, every state reachable by at most depth
// operations. A state is (cursor, error flag): every method reads only the
// buffer and the cursor and writes only the cursor and the sticky error, so
// two decoders over the same buffer that agree on both have the same futures.
// Successors are produced on the real object by replaying the shortest path.
func decBFS(c *core.Ctx, buf []byte, ops []decOp, depth int) (states, trans int) {
	type node struct {
		st   decState
		path []decOp
	}
	seen := map[decState]bool{{0, false}: true}
	frontier := []node{{decState{0, false}, nil}}
	for level := 0; level < depth && len(frontier) > 0; level++ {
		var next []node
		for _, nd := range frontier {
			for _, o := range ops {
				d := decoder.NewDecoder(mkBuf(buf))
				ref := &refDec{buf: buf}
				ok := true
				for _, p := range nd.path {
					if _, pan := applyReal(d, p); pan != "" {
						ok = false
						break
					}
					ref.apply(p)
				}
				if !ok {
					continue
				}
				errBefore := ref.err
				got, pan := applyReal(d, o)
				want := ref.apply(o)
				trans++
				if !decCompare(c, buf, nd.path, o, d, got, pan, ref, want, errBefore) {
					continue // do not explore beyond a divergent state
				}
				st := decState{ref.off, ref.err}
				if !seen[st] {
					seen[st] = true
					next = append(next, node{st, append(append([]decOp(nil), nd.path...), o)})
				}
			}
		}
		frontier = next
	}
	return len(seen), trans
}

// decSeqs runs every operation sequence of exactly the given length (no state
// merging) — a cross-check of the canonicalisation argument on small buffers.
func decSeqs(c *core.Ctx, buf []byte, ops []decOp, length int) (n int) {
	idx := make([]int, length)
	for {
		d := decoder.NewDecoder(mkBuf(buf))
		ref := &refDec{buf: buf}
		var path []decOp
		for _, i := range idx {
			o := ops[i]
			errBefore := ref.err
			got, pan := applyReal(d, o)
			want := ref.apply(o)
			n++
			if !decCompare(c, buf, path, o, d, got, pan, ref, want, errBefore) {
				break
			}
			path = append(path, o)
		}
		k := length - 1
		for k >= 0 {
			idx[k]++
			if idx[k] < len(ops) {
				break
			}
			idx[k] = 0
			k--
		}
		if k < 0 {
			return
		}
	}
}

func runC17(c *core.Ctx) {
	ops := decAlphabet()
	depth := 4
	small := []byte{0x00, 0x01, 0x7f, 0x80, 0xff}
	// all buffers of length 0..2 over all byte values: grouped by first byte
	c.Case("decoder/bfs/len0-1", func() {
		s, t := decBFS(c, []byte{}, ops, depth)
		for a := 0; a < 256; a++ {
			s2, t2 := decBFS(c, []byte{byte(a)}, ops, depth)
			s, t = s+s2, t+t2
		}
		c.Count("states", int64(s))
		c.Count("transitions", int64(t))
		c.Count("executions", 257)
		c.Outcome("bfs01", fmt.Sprint(s, t))
		c.Sample(map[string]interface{}{"part": "decoder-bfs", "buffer_hex": "ff", "depth": depth, "alphabet": fmt.Sprint(ops), "states_for_this_buffer": "(cursor,errflag) pairs reachable"})
	})
	for a := 0; a < 256; a++ {
		a := a
		c.Case(fmt.Sprintf("decoder/bfs/len2/%02x??", a), func() {
			s, t := 0, 0
			for b := 0; b < 256; b++ {
				s2, t2 := decBFS(c, []byte{byte(a), byte(b)}, ops, depth)
				s, t = s+s2, t+t2
			}
			c.Count("states", int64(s))
			c.Count("transitions", int64(t))
			c.Count("executions", 256)
			c.Outcome("bfs2", fmt.Sprint(a, s, t))
		})
	}
	// length 3..6 over the boundary byte alphabet
	for l := 3; l <= 6; l++ {
		total := 1
		for i := 0; i < l; i++ {
			total *= len(small)
		}
		chunk := 125
		for base := 0; base < total; base += chunk {
			l, base := l, base
			c.Case(fmt.Sprintf("decoder/bfs/len%d/%d", l, base), func() {
				s, t := 0, 0
				for k := base; k < base+chunk && k < total; k++ {
					buf := make([]byte, l)
					x := k
					for i := 0; i < l; i++ {
						buf[i] = small[x%len(small)]
						x /= len(small)
					}
					s2, t2 := decBFS(c, buf, ops, depth)
					s, t = s+s2, t+t2
					c.Count("executions", 1)
				}
				c.Count("states", int64(s))
				c.Count("transitions", int64(t))
				c.Outcome("bfsN", fmt.Sprint(l, base, s, t))
			})
		}
	}
	// unmerged sequences (depth 3; thorough 4 on the short ones) on buffers of length 0..3
	seqDepth := 3
	for l := 0; l <= 3; l++ {
		total := 1
		for i := 0; i < l; i++ {
			total *= len(small)
		}
		for k := 0; k < total; k++ {
			l, k := l, k
			c.Case(fmt.Sprintf("decoder/seq/len%d/%d", l, k), func() {
				buf := make([]byte, l)
				x := k
				for i := 0; i < l; i++ {
					buf[i] = small[x%len(small)]
					x /= len(small)
				}
				d := seqDepth
				if c.Thorough() && l <= 2 {
					d = 4
				}
				n := decSeqs(c, buf, ops, d)
				c.Count("transitions", int64(n))
				c.Count("unmerged_sequences_ops", int64(n))
				c.Count("executions", 1)
				c.Outcome("seq", fmt.Sprint(l, k, n))
				if l == 2 && k == 24 {
					c.Sample(map[string]interface{}{"part": "decoder-seq", "buffer_hex": fmt.Sprintf("%x", buf), "sequence_length": d, "sequences": n / d})
				}
			})
		}
	}
	c17IPP(c)
}

#!/usr/bin/env python3
"""Self-test: every 'fix:' commit of /repo is a realistic property-breaking change when reverted.
For each one, revert it in a scratch worktree, run the check of the property it was recorded under
(known_findings.json 'fixed:' lines) against that worktree (VF_REPO), and expect a VIOLATION.
Also applies the hand-written patches under selftest/*.diff and the seeded changes under seeded/*/patch.diff.

usage: lib/selftest.py [--only C07,C14] [--name substr,substr] [--seeded] [--fixes]
Writes selftest/RESULTS.json. Never touches /repo's working tree."""
import json, os, re, subprocess, sys, shutil, time

VERIF = os.path.dirname(os.path.dirname(os.path.abspath(__file__)))
WT = "/tmp/vf-selftest-repo-%d" % os.getpid()


def sh(*a, **kw):
    return subprocess.run(a, stdout=subprocess.PIPE, stderr=subprocess.STDOUT, text=True, **kw)


def run_check(prop):
    env = dict(os.environ, VF_REPO=WT, VF_EVIDENCE_DIR="/tmp/vf-selftest-evidence", VF_REPLAY_DIR="/tmp/vf-selftest-replays")
    t0 = time.time()
    r = sh(os.path.join(VERIF, "vf"), "check", prop, cwd=VERIF, env=env)
    sigs = sorted(set(re.findall(r"sig=(\S+)", r.stdout)))
    return r.returncode, sigs, round(time.time() - t0, 1), r.stdout[-1500:]


def main():
    names = None
    if "--name" in sys.argv:
        names = sys.argv[sys.argv.index("--name") + 1].split(",")
    only = None
    if "--only" in sys.argv:
        only = set(sys.argv[sys.argv.index("--only") + 1].split(","))
    do_fix = "--seeded" not in sys.argv or "--fixes" in sys.argv
    do_seed = "--fixes" not in sys.argv or "--seeded" in sys.argv
    sh("git", "-C", "/repo", "worktree", "remove", "--force", WT)
    shutil.rmtree(WT, ignore_errors=True)
    r = sh("git", "-C", "/repo", "worktree", "add", "--detach", WT, "HEAD")
    if r.returncode != 0:
        print(r.stdout)
        return 2
    results = []
    try:
        if do_fix:
            kf = json.load(open(os.path.join(VERIF, "known_findings.json")))
            for line in kf.get("fixed", []):
                m = re.match(r"fixed: property=(C\d+) ([0-9a-f]{7,}) (.*)", line)
                if not m:
                    continue
                prop, commit, what = m.groups()
                if only and prop not in only:
                    continue
                if names and not any(commit.startswith(n) for n in names):
                    continue
                sh("git", "-C", WT, "reset", "--hard", "HEAD")
                rv = sh("git", "-C", WT, "revert", "-n", *(kf.get("revert_with", {}).get(commit, []) + [commit]))
                how = "git revert -n"
                if rv.returncode != 0:
                    # later fixes touched the same lines: take the touched files back to their state before this
                    # commit (this also undoes the later fixes to those files; the tree then has at least this defect)
                    sh("git", "-C", WT, "revert", "--abort")
                    sh("git", "-C", WT, "reset", "--hard", "HEAD")
                    files = [f for f in sh("git", "-C", WT, "show", "--name-only", "--format=", commit).stdout.split() if f]
                    co = sh("git", "-C", WT, "checkout", commit + "^", "--", *files)
                    how = "files of the commit restored to their state before it"
                    if co.returncode != 0:
                        results.append(dict(kind="revert-fix", property=prop, commit=commit, what=what[:160], outcome="revert-conflict"))
                        print("CONFLICT %s %s" % (prop, commit))
                        continue
                genv = dict(os.environ, GOFLAGS="-mod=mod", GOPROXY="off", GOSUMDB="off")
                b = sh("go", "build", "./...", cwd=WT, env=genv)
                if b.returncode != 0 and how == "git revert -n":
                    # e.g. a later commit tidied the imports the fix had added: restore the files instead
                    sh("git", "-C", WT, "reset", "--hard", "HEAD")
                    files = [f for f in sh("git", "-C", WT, "show", "--name-only", "--format=", commit).stdout.split() if f]
                    sh("git", "-C", WT, "checkout", commit + "^", "--", *files)
                    how = "files of the commit restored to their state before it"
                    b = sh("go", "build", "./...", cwd=WT, env=genv)
                if b.returncode != 0:
                    results.append(dict(kind="revert-fix", property=prop, commit=commit, what=what[:160], outcome="does-not-build"))
                    print("NOBUILD %s %s" % (prop, commit))
                    continue
                rc, sigs, secs, tail = run_check(prop)
                ok = rc == 1
                results.append(dict(kind="revert-fix", property=prop, commit=commit, how=how, what=what[:160], outcome="detected" if ok else "MISSED rc=%d" % rc, sigs=sigs[:6], seconds=secs))
                print("%s %s %s rc=%d %.0fs %s" % ("DETECTED" if ok else "MISSED  ", prop, commit, rc, secs, sigs[:2]))
        if do_seed:
            sd = os.path.join(VERIF, "seeded")
            for name in sorted(os.listdir(sd)) if os.path.isdir(sd) else []:
                meta_p = os.path.join(sd, name, "meta.json")
                patch = os.path.join(sd, name, "patch.diff")
                if not (os.path.exists(meta_p) and os.path.exists(patch)):
                    continue
                meta = json.load(open(meta_p))
                prop = meta["property"]
                if only and prop not in only:
                    continue
                if names and not any(n in name for n in names):
                    continue
                sh("git", "-C", WT, "reset", "--hard", "HEAD")
                ap = sh("git", "-C", WT, "apply", patch)
                if ap.returncode != 0:
                    results.append(dict(kind="seeded", name=name, property=prop, outcome="patch-does-not-apply"))
                    print("NOAPPLY %s" % name)
                    continue
                rc, sigs, secs, tail = run_check(prop)
                ok = rc == 1
                results.append(dict(kind="seeded", name=name, property=prop, outcome="detected" if ok else "MISSED rc=%d" % rc, sigs=sigs[:6], seconds=secs))
                print("%s seeded/%s %s rc=%d %.0fs %s" % ("DETECTED" if ok else "MISSED  ", name, prop, rc, secs, sigs[:2]))
    finally:
        sh("git", "-C", "/repo", "worktree", "remove", "--force", WT)
        shutil.rmtree(WT, ignore_errors=True)
        for f in os.listdir(os.path.join(VERIF, ".build")):
            fp = os.path.join(VERIF, ".build", f)
            if f.startswith("go-") or f.startswith("vfh-") or (f.startswith("inst-") and not f.startswith("inst-out")):
                if os.path.isfile(fp):
                    os.remove(fp)
            elif f.startswith("inst-out-"):
                shutil.rmtree(fp, ignore_errors=True)
    os.makedirs(os.path.join(VERIF, "selftest"), exist_ok=True)
    out = os.path.join(VERIF, "selftest", "RESULTS.json")
    prev = []
    if os.path.exists(out) and not (only or names):
        kinds = {r.get("kind") for r in results}
        prev = [r for r in json.load(open(out)) if r.get("kind") not in kinds]  # a --seeded / --fixes run keeps the other kind
    if os.path.exists(out) and (only or names):
        done = {(r.get("kind"), r.get("name") or r.get("commit")) for r in results}
        prev = [r for r in json.load(open(out)) if (r.get("kind"), r.get("name") or r.get("commit")) not in done]
    json.dump(prev + results, open(out, "w"), indent=1)
    missed = [r for r in results if r["outcome"].startswith("MISSED")]
    print("%d changes, %d detected, %d missed, %d other" % (len(results), sum(r["outcome"] == "detected" for r in results), len(missed), len(results) - len(missed) - sum(r["outcome"] == "detected" for r in results)))
    return 1 if missed else 0


if __name__ == "__main__":
    sys.exit(main())

// Package props holds one driver per property. A driver enumerates its whole
// bounded space deterministically and wraps each execution in c.Case, so the
// orchestrator can shard, attribute crashes and replay single cases.
package props

import "verif/h/core"

type driver struct {
	run          func(c *core.Ctx)
	pre          func(c *core.Ctx) // runs outside the bubble, before run
	needsStorage bool              // open the badger data dir and warm services up outside the bubble
	noBubble     bool              // run on the real clock (real sockets, child processes)
	cpuBudget    float64           // watchdog CPU budget per step (default 20 s)
}

var drivers = map[string]driver{}

func register(id string, d driver) { drivers[id] = d }

package props

import (
	"encoding/binary"
	"fmt"
	"net"
)

// Independent frame codec for the raw-listener checks (C02, C14, C20):
// builders with every length/offset field under the caller's control, a decoder
// for emitted frames and independently computed IPv4/TCP checksums.

var (
	macClient = net.HardwareAddr{0x02, 0, 0, 0, 0, 0x01}
	macServer = net.HardwareAddr{0x02, 0, 0, 0, 0, 0xfe}
	ipServer  = net.IPv4(127, 0, 0, 1)
)

func eth(dst, src net.HardwareAddr, etype uint16, payload []byte) []byte {
	b := make([]byte, 14, 14+len(payload))
	copy(b[0:6], dst)
	copy(b[6:12], src)
	binary.BigEndian.PutUint16(b[12:], etype)
	return append(b, payload...)
}

type ipOpts struct {
	ihlSet   bool // false: IHL = 5
	ihl      int  // IHL field value (32-bit words), 0..15
	totalLen int  // -1 = actual
	proto    byte
	src, dst net.IP
}

func ip4(o ipOpts, payload []byte) []byte {
	ihl := 5
	if o.ihlSet {
		ihl = o.ihl
	}
	hl := ihl * 4
	if hl < 20 {
		hl = 20 // the fixed part is always written; the IHL field may still claim less
	}
	b := make([]byte, hl, hl+len(payload))
	b[0] = 0x40 | byte(ihl&0x0f)
	tl := o.totalLen
	if tl < 0 {
		tl = hl + len(payload)
	}
	binary.BigEndian.PutUint16(b[2:], uint16(tl))
	binary.BigEndian.PutUint16(b[4:], 0x1234)
	b[8] = 64
	b[9] = o.proto
	copy(b[12:16], o.src.To4())
	copy(b[16:20], o.dst.To4())
	binary.BigEndian.PutUint16(b[10:], ipChecksum(b[:20]))
	return append(b, payload...)
}

func ipChecksum(h []byte) uint16 {
	var sum uint32
	for i := 0; i+1 < len(h); i += 2 {
		if i == 10 {
			continue
		}
		sum += uint32(h[i])<<8 | uint32(h[i+1])
	}
	for sum > 0xffff {
		sum = sum>>16 + sum&0xffff
	}
	return ^uint16(sum)
}

// tcpChecksum over pseudo header + segment (checksum field taken as zero).
func tcpChecksum(src, dst net.IP, seg []byte) uint16 {
	var sum uint32
	s4, d4 := src.To4(), dst.To4()
	sum += uint32(s4[0])<<8 | uint32(s4[1])
	sum += uint32(s4[2])<<8 | uint32(s4[3])
	sum += uint32(d4[0])<<8 | uint32(d4[1])
	sum += uint32(d4[2])<<8 | uint32(d4[3])
	sum += 6
	sum += uint32(len(seg))
	for i := 0; i < len(seg); i += 2 {
		var w uint32
		if i == 16 {
			continue
		}
		w = uint32(seg[i]) << 8
		if i+1 < len(seg) {
			w |= uint32(seg[i+1])
		}
		sum += w
	}
	for sum > 0xffff {
		sum = sum>>16 + sum&0xffff
	}
	return ^uint16(sum)
}

const (
	fFIN = 0x01
	fSYN = 0x02
	fRST = 0x04
	fPSH = 0x08
	fACK = 0x10
	fURG = 0x20
)

type tcpOpts struct {
	sport, dport uint16
	seq, ack     uint32
	flags        byte
	dataOff      int // words; 0 = computed from options
	options      []byte
	badSum       bool
}

func tcpSeg(o tcpOpts, src, dst net.IP, payload []byte) []byte {
	opts := o.options
	for len(opts)%4 != 0 && o.dataOff == 0 {
		opts = append(opts, 0)
	}
	do := o.dataOff
	if do == 0 {
		do = 5 + len(opts)/4
	}
	b := make([]byte, 20, 20+len(opts)+len(payload))
	binary.BigEndian.PutUint16(b[0:], o.sport)
	binary.BigEndian.PutUint16(b[2:], o.dport)
	binary.BigEndian.PutUint32(b[4:], o.seq)
	binary.BigEndian.PutUint32(b[8:], o.ack)
	b[12] = byte(do << 4)
	b[13] = o.flags & 0x3f
	binary.BigEndian.PutUint16(b[14:], 65535)
	b = append(b, opts...)
	b = append(b, payload...)
	cs := tcpChecksum(src, dst, b)
	if o.badSum {
		cs ^= 0x5555
	}
	binary.BigEndian.PutUint16(b[16:], cs)
	return b
}

func udpDgram(sport, dport uint16, length int, payload []byte) []byte {
	b := make([]byte, 8, 8+len(payload))
	binary.BigEndian.PutUint16(b[0:], sport)
	binary.BigEndian.PutUint16(b[2:], dport)
	if length < 0 {
		length = 8 + len(payload)
	}
	binary.BigEndian.PutUint16(b[4:], uint16(length))
	return append(b, payload...)
}

func icmpEcho(id, seq uint16, payload []byte) []byte {
	b := make([]byte, 8, 8+len(payload))
	b[0] = 8
	binary.BigEndian.PutUint16(b[4:], id)
	binary.BigEndian.PutUint16(b[6:], seq)
	b = append(b, payload...)
	var sum uint32
	for i := 0; i < len(b); i += 2 {
		w := uint32(b[i]) << 8
		if i+1 < len(b) {
			w |= uint32(b[i+1])
		}
		sum += w
	}
	for sum > 0xffff {
		sum = sum>>16 + sum&0xffff
	}
	binary.BigEndian.PutUint16(b[2:], ^uint16(sum))
	return b
}

// full frames from a client (src) to the sensor
func frameTCP(src net.IP, o tcpOpts, payload []byte) []byte {
	return eth(macServer, macClient, 0x0800, ip4(ipOpts{proto: 6, src: src, dst: ipServer, totalLen: -1}, tcpSeg(o, src, ipServer, payload)))
}

func frameUDP(src net.IP, sport, dport uint16, payload []byte) []byte {
	return eth(macServer, macClient, 0x0800, ip4(ipOpts{proto: 17, src: src, dst: ipServer, totalLen: -1}, udpDgram(sport, dport, -1, payload)))
}

func frameICMP(src net.IP, id, seq uint16) []byte {
	return eth(macServer, macClient, 0x0800, ip4(ipOpts{proto: 1, src: src, dst: ipServer, totalLen: -1}, icmpEcho(id, seq, []byte("abcdefgh"))))
}

// decoded emitted frame
type txFrame struct {
	ethDst, ethSrc net.HardwareAddr
	etype          uint16
	ipSrc, ipDst   net.IP
	ipTotalLen     int
	ipSumOK        bool
	proto          byte
	sport, dport   uint16
	seq, ack       uint32
	flags          byte
	dataOff        int
	tcpSumOK       bool
	payload        []byte
	raw            []byte
	err            string
}

func decodeTx(b []byte) txFrame {
	f := txFrame{raw: b}
	if len(b) < 14+20 {
		f.err = "frame shorter than ethernet+ipv4 headers"
		return f
	}
	f.ethDst, f.ethSrc = net.HardwareAddr(b[0:6]), net.HardwareAddr(b[6:12])
	f.etype = binary.BigEndian.Uint16(b[12:])
	ip := b[14:]
	ihl := int(ip[0]&0x0f) * 4
	if ip[0]>>4 != 4 || ihl < 20 || ihl > len(ip) {
		f.err = "bad IPv4 version/IHL"
		return f
	}
	f.ipTotalLen = int(binary.BigEndian.Uint16(ip[2:]))
	f.ipSumOK = ipChecksum(ip[:ihl]) == binary.BigEndian.Uint16(ip[10:])
	f.proto = ip[9]
	f.ipSrc, f.ipDst = net.IP(ip[12:16]), net.IP(ip[16:20])
	if f.ipTotalLen != len(ip) {
		f.err = fmt.Sprintf("IPv4 total length %d but %d bytes follow the ethernet header", f.ipTotalLen, len(ip))
		return f
	}
	seg := ip[ihl:]
	if f.proto == 6 {
		if len(seg) < 20 {
			f.err = "TCP segment shorter than 20 bytes"
			return f
		}
		f.sport, f.dport = binary.BigEndian.Uint16(seg[0:]), binary.BigEndian.Uint16(seg[2:])
		f.seq, f.ack = binary.BigEndian.Uint32(seg[4:]), binary.BigEndian.Uint32(seg[8:])
		f.dataOff = int(seg[12] >> 4)
		f.flags = seg[13] & 0x3f
		f.tcpSumOK = tcpChecksum(f.ipSrc, f.ipDst, seg) == binary.BigEndian.Uint16(seg[16:])
		if f.dataOff*4 > len(seg) || f.dataOff < 5 {
			f.err = "bad TCP data offset"
			return f
		}
		f.payload = seg[f.dataOff*4:]
	}
	return f
}

func (f txFrame) String() string {
	return fmt.Sprintf("%s:%d>%s:%d flags=%#02x seq=%d ack=%d len=%d ipsum=%v tcpsum=%v %s", f.ipSrc, f.sport, f.ipDst, f.dport, f.flags, f.seq, f.ack, len(f.payload), f.ipSumOK, f.tcpSumOK, f.err)
}

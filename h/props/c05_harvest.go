package props

import "verif/h/core"

func c05Harvest(c *core.Ctx) {}

//go:build verifinst

package props

// Fine-grain explorer: a stateless, preemption-bounded depth-first search over
// the schedules of the REAL goroutines of honeytrap, at the granularity of
// their synchronisation operations. The sources of the components under test
// are rewritten by /verif/inst (build overlay; nothing is written to the
// repository): before every channel operation, select, go statement, mutex
// Lock and watched map access the goroutine parks in package verifsched until
// the explorer releases it. synctest.Wait() returns exactly when every
// goroutine in the bubble is parked at such a point or durably blocked, so one
// "transition" is: release one parked goroutine, wait for quiescence.
//
// A scenario is a function that builds a fresh instance of the component,
// feeds it, and calls x.drive() where the harness would otherwise wait for
// quiescence; drive() consumes the schedule. The explorer re-runs the scenario
// for every schedule (no state is copied), checks that the enabled sets seen
// while replaying a prefix are the ones recorded (divergence = hard error) and
// evaluates the oracle on every complete execution.

import (
	"encoding/json"
	"fmt"
	"hash/fnv"
	"os"
	"path/filepath"
	"runtime"
	"strconv"
	"strings"
	"testing/synctest"

	"github.com/honeytrap/honeytrap/verifsched"

	"verif/h/core"
)

type fgPoint struct {
	Enabled     []string `json:"en"` // "label@site" in canonical order
	LastEnabled bool     `json:"le"` // the goroutine released last is enabled (choosing another one is a preemption)
}

type fgExec struct {
	prefix   []int
	choices  []int
	points   []fgPoint
	trace    []string
	expect   []fgPoint // enabled sets recorded when the prefix was first run
	diverged string
	deadlock string
	races    map[string]string
	horizon  bool
	maxSteps int
}

func (x *fgExec) preemptionsBefore(i int) int {
	n := 0
	for k := 0; k < i; k++ {
		if x.choices[k] != 0 && x.points[k].LastEnabled {
			n++
		}
	}
	return n
}

// drive releases parked goroutines according to the schedule until none is enabled.
func (x *fgExec) drive() {
	for {
		synctest.Wait()
		core.Tick()
		if a, b := verifsched.Conflict(); a != nil {
			s1, s2 := a.Site, b.Site
			if s2 < s1 {
				s1, s2 = s2, s1
			}
			k := s1 + "+" + s2
			if _, ok := x.races[k]; !ok {
				x.races[k] = fmt.Sprintf("%s at %s (write=%v) and %s at %s (write=%v) are enabled together on the same map", a.G, a.Site, a.Write, b.G, b.Site, b.Write)
			}
		}
		en, blocked := verifsched.Enabled()
		if len(en) == 0 {
			if len(blocked) > 0 {
				var w []string
				for _, p := range blocked {
					w = append(w, p.G+"@"+p.Site)
				}
				x.deadlock = strings.Join(w, ", ")
			} else {
				x.deadlock = ""
			}
			return
		}
		i := len(x.choices)
		pt := fgPoint{LastEnabled: en[0].G == verifsched.LastRun()}
		for _, p := range en {
			pt.Enabled = append(pt.Enabled, p.G+"@"+p.Site)
		}
		ch := 0
		if i < len(x.prefix) {
			ch = x.prefix[i]
			if i < len(x.expect) && strings.Join(x.expect[i].Enabled, " ") != strings.Join(pt.Enabled, " ") && x.diverged == "" {
				x.diverged = fmt.Sprintf("decision %d: recorded enabled set [%s], replay sees [%s]", i, strings.Join(x.expect[i].Enabled, " "), strings.Join(pt.Enabled, " "))
			}
			if ch >= len(en) {
				if x.diverged == "" {
					x.diverged = fmt.Sprintf("decision %d: choice %d of %d", i, ch, len(en))
				}
				ch = 0
			}
		}
		x.points = append(x.points, pt)
		x.choices = append(x.choices, ch)
		x.trace = append(x.trace, pt.Enabled[ch])
		verifsched.Release(en[ch])
		if len(x.choices) >= x.maxSteps {
			x.horizon = true
			return
		}
	}
}

type fgScenario struct {
	prop string // property id (prefix of the signatures the explorer itself reports)
	name string
	// run builds a fresh instance, activates the scheduler, drives, deactivates, tears down and
	// returns the oracle's verdicts (signature -> detail) for this execution.
	run     func(x *fgExec) map[string]string
	bound   int // preemption bound
	maxExec int // cap on executions per first deviation (0 = tier default)
}

type fgStats struct {
	execs, transitions, maxPoints, divergences, horizons int
	outcomes                                             map[string]bool
}

func fgRunOnce(sc *fgScenario, prefix []int, expect []fgPoint) (*fgExec, map[string]string) {
	x := &fgExec{prefix: prefix, expect: expect, races: map[string]string{}, maxSteps: 4000}
	v := sc.run(x)
	return x, v
}

// fgWork is one pending node of the search: a schedule prefix to run, and the enabled sets that
// were recorded when its decisions were first taken.
type fgWork struct {
	Prefix []int     `json:"p"`
	Expect []fgPoint `json:"e"`
}

// fgExplore runs every schedule of sc with at most sc.bound preemptions, one Case per position of
// the first deviation from the default schedule. The search keeps an explicit stack of pending
// prefixes (depth-first order). Every execution builds a fresh instance and the dead ones leave
// parked goroutines behind, so a long case saves its stack to the scratch directory when the heap
// has grown and asks to be continued by a fresh worker process.
func fgExplore(c *core.Ctx, sc *fgScenario) {
	st := &fgStats{outcomes: map[string]bool{}}
	maxExec := 150000
	if c.Thorough() {
		maxExec = 1500000
	}
	if sc.maxExec > 0 {
		maxExec = sc.maxExec
	}
	report := func(x *fgExec, v map[string]string) {
		st.execs++
		st.transitions += len(x.choices)
		if len(x.points) > st.maxPoints {
			st.maxPoints = len(x.points)
		}
		c.Count("executions", 1)
		c.Count("schedules", 1)
		c.Count("transitions", int64(len(x.choices)))
		sched := fmt.Sprintf("%s schedule=%v trace=[%s]", sc.name, trimChoices(x.choices), strings.Join(x.trace, " > "))
		if x.diverged != "" {
			st.divergences++
			c.Count("fg_divergences", 1)
			c.NotExhaustive("fine-grain replay diverged (" + sc.name + "): " + x.diverged)
			return
		}
		if x.horizon {
			st.horizons++
			c.NotExhaustive(fmt.Sprintf("fine-grain horizon of %d transitions reached in %s", x.maxSteps, sc.name))
		}
		for k, d := range x.races {
			c.Violationf(sc.prop+":fg:race:"+k, "%s: %s", sched, d)
		}
		if x.deadlock != "" {
			v[sc.prop+":fg:stuck"] = "no goroutine is enabled but these wait for a lock that is never released: " + x.deadlock
		}
		for sig, d := range v {
			c.Violationf(sig, "%s: %s", sched, d)
		}
		c.Outcome(sc.name, fmt.Sprint(len(x.choices)), fmt.Sprint(len(v)))
	}
	// children of an execution: every alternative at every decision behind the prefix that stays within the bound
	children := func(x *fgExec, from int) []fgWork {
		var out []fgWork
		for i := from; i < len(x.points); i++ {
			p := x.points[i]
			if len(p.Enabled) < 2 {
				continue
			}
			cost := x.preemptionsBefore(i)
			if p.LastEnabled {
				cost++
			}
			if cost > sc.bound {
				continue
			}
			for alt := 1; alt < len(p.Enabled); alt++ {
				out = append(out, fgWork{append(append([]int{}, x.choices[:i]...), alt), append([]fgPoint(nil), x.points[:i+1]...)})
			}
		}
		return out
	}
	runStack := func(stack []fgWork, done int) {
		ranHere := 0
		ckpt := filepath.Join(os.Getenv("VF_SCRATCH"), fmt.Sprintf("fgwork-%x.json", fnvHash(c.Prop+"|"+c.CaseName()))) // the run's directory, shared by its workers
		if b, err := os.ReadFile(ckpt); err == nil {
			var saved struct {
				Stack []fgWork
				Done  int
			}
			if json.Unmarshal(b, &saved) == nil {
				stack, done = saved.Stack, saved.Done
			}
			os.Remove(ckpt)
		}
		for len(stack) > 0 {
			if c.Expired() {
				return
			}
			if done >= maxExec {
				c.NotExhaustive(fmt.Sprintf("fine-grain %s: cap of %d executions per first deviation reached", sc.name, maxExec))
				return
			}
			if (fgRecycleEvery > 0 && ranHere >= fgRecycleEvery) || (ranHere > 0 && ranHere%64 == 0 && core.HeapBytes() > fgHeapLimit && liveHeapAbove(fgHeapLimit)) { // continue in a fresh process
				b, _ := json.Marshal(struct {
					Stack []fgWork
					Done  int
				}{stack, done})
				if os.WriteFile(ckpt, b, 0600) == nil {
					if os.Getenv("VF_FG_DEBUG") != "" {
						fmt.Fprintf(os.Stderr, "FGRECYCLE heap=%dMiB done=%d stack=%d ranHere=%d\n", core.HeapBytes()>>20, done, len(stack), ranHere)
					}
					c.Count("fg_recycles", 1)
					c.RequestRecycle()
					return
				}
			}
			w := stack[len(stack)-1]
			stack = stack[:len(stack)-1]
			x, v := fgRunOnce(sc, w.Prefix, w.Expect)
			report(x, v)
			done++
			ranHere++
			if x.diverged != "" {
				continue
			}
			ch := children(x, len(w.Prefix))
			for i := len(ch) - 1; i >= 0; i-- { // reversed: the first child is explored first
				stack = append(stack, ch[i])
			}
		}
	}
	// the default schedule (runs in every shard: the case list must be the same everywhere)
	x0, v0 := fgRunOnce(sc, nil, nil)
	c.Case(sc.name+"/default", func() { report(x0, v0) })
	if x0.diverged != "" {
		return
	}
	for i := range x0.points {
		i := i
		p := x0.points[i]
		if len(p.Enabled) < 2 {
			continue
		}
		cost := x0.preemptionsBefore(i)
		if p.LastEnabled {
			cost++
		}
		if cost > sc.bound {
			continue
		}
		c.Case(fmt.Sprintf("%s/first-deviation@%d", sc.name, i), func() {
			var stack []fgWork
			for alt := len(p.Enabled) - 1; alt >= 1; alt-- {
				stack = append(stack, fgWork{append(append([]int{}, x0.choices[:i]...), alt), append([]fgPoint(nil), x0.points[:i+1]...)})
			}
			runStack(stack, 0)
		})
	}
	c.Note(fmt.Sprintf("fine-grain %s: preemption bound %d, default schedule has %d decisions", sc.name, sc.bound, len(x0.points)))
}

// fgHeapLimit: 1.5 GiB unless VF_FG_HEAP_MB says otherwise (used to test the hand-over).
var fgHeapLimit = func() uint64 {
	if n, err := strconv.Atoi(os.Getenv("VF_FG_HEAP_MB")); err == nil && n > 0 {
		return uint64(n) << 20
	}
	return 3 << 29
}()

// fgRecycleEvery (VF_FG_RECYCLE_EVERY) forces a hand-over after that many executions (test aid).
var fgRecycleEvery, _ = strconv.Atoi(os.Getenv("VF_FG_RECYCLE_EVERY"))

// liveHeapAbove collects garbage first: the heap metric counts unreachable objects too.
func liveHeapAbove(limit uint64) bool {
	runtime.GC()
	return core.HeapBytes() > limit
}

func fnvHash(s string) uint64 {
	h := fnv.New64a()
	h.Write([]byte(s))
	return h.Sum64()
}

func trimChoices(ch []int) []int {
	n := len(ch)
	for n > 0 && ch[n-1] == 0 {
		n--
	}
	return ch[:n]
}

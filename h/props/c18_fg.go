//go:build verifinst

package props

import (
	"fmt"
	"os"
	"path/filepath"

	"verif/h/core"
	"verif/h/lab"
)

// C18/fg — crash points inside the first start-up, at the granularity of the
// storage layer: in the instrumented build every storage.Set is followed by a
// fault-injection point (it is placed behind the committed badger
// transaction). For every service set and every k the first start on a fresh
// data directory is killed (SIGKILL, nothing flushed) at its k-th stored item;
// the starts that follow must come up with a complete, well-formed identity
// and keep it. k runs until a first start completes without reaching it.

func init() { register("C18/fg", driver{run: runC18FG, noBubble: true, needsStorage: true}) }

func runC18FG(c *core.Ctx) {
	base := filepath.Join(lab.ScratchDir(), "c18fg")
	os.MkdirAll(base, 0755)
	sets := [][]string{{"smtp"}, {"ftp"}, {"ldap"}, {"ssh"}, {"ssh", "ftp", "smtp", "ldap"}}
	for si, set := range sets {
		si, set := si, set
		c.Case(fmt.Sprintf("crash-at-stored-item/%v", set), func() {
			for k := 1; k <= 24; k++ {
				dir := filepath.Join(base, fmt.Sprintf("d-%d-%d", si, k), "data")
				os.RemoveAll(filepath.Dir(dir))
				os.MkdirAll(dir, 0755)
				c18ChildEnv = []string{fmt.Sprintf("VF_CRASH_AT=%d", k)}
				first, err := startChild(c, dir, set, "")
				c18ChildEnv = nil
				crashed := err != nil // the killed child writes no result
				desc := fmt.Sprintf("services %v: first start killed right after its stored item #%d", set, k)
				c.Count("executions", 1)
				var ids []identity
				for n := 0; n < 2; n++ {
					id, err := startChild(c, dir, set, "")
					if err != nil || id.Err != "" {
						c.Violationf("C18:fg:start-failed", "%s: start #%d afterwards failed: %v %s", desc, n+2, err, id.Err)
						break
					}
					ids = append(ids, id)
				}
				if len(ids) == 2 {
					if !tokenOK.MatchString(ids[0].Token) {
						c.Violationf("C18:fg:token-malformed", "%s: the next start presents the token %q", desc, ids[0].Token)
					}
					a, b := ids[0].items(), ids[1].items()
					for _, svc := range set {
						if a[svc] == "" {
							c.Violationf("C18:fg:identity-missing:"+svc, "%s: the next start presents no %s identity (key / certificate)", desc, svc)
						}
					}
					for item, v := range a {
						if b[item] != v {
							c.Violationf("C18:fg:identity-changed:"+item, "%s: %s changed between the two starts that followed (%q -> %q)", desc, item, trunc(v, 24), trunc(b[item], 24))
						}
					}
					if !crashed {
						fa := first.items()
						for item, v := range fa {
							if a[item] != v {
								c.Violationf("C18:fg:identity-changed:"+item, "%s (the first start completed): %s changed at the restart", desc, item)
							}
						}
					}
				}
				os.RemoveAll(filepath.Dir(dir))
				c.Outcome("crash-at", fmt.Sprint(set), fmt.Sprint(k), fmt.Sprint(crashed))
				if !crashed {
					c.Note(fmt.Sprintf("services %v: a first start stores %d items", set, k-1))
					break
				}
			}
		})
	}
}

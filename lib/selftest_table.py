#!/usr/bin/env python3
"""Renders selftest/RESULTS.json as selftest/RESULTS.md (which check catches which change)."""
import json, os
V = os.path.dirname(os.path.dirname(os.path.abspath(__file__)))
rs = json.load(open(os.path.join(V, "selftest", "RESULTS.json")))
out = ["# Self-test results", "",
       "Produced by `lib/selftest.py` (scratch worktree of /repo, change applied or fix reverted, quick check of the",
       "property, exit code 1 with a VIOLATION line expected). Signatures are the first ones the check printed.", ""]
for kind, title in (("seeded", "Independently written property-breaking changes (`seeded/`)"), ("revert-fix", "Reverted `fix:` commits")):
    rows = [r for r in rs if r.get("kind") == kind]
    out += ["## " + title, "", "| change | property | outcome | seconds | first signatures |", "|---|---|---|---|---|"]
    for r in sorted(rows, key=lambda r: (r.get("property", ""), r.get("name") or r.get("commit") or "")):
        what = r.get("name") or ("%s %s" % (r.get("commit", ""), (r.get("what") or "")[:90]))
        out.append("| %s | %s | %s | %s | %s |" % (what.replace("|", "/"), r.get("property", ""), r.get("outcome", ""), int(r.get("seconds", 0) or 0),
                                               ", ".join("`%s`" % s for s in (r.get("sigs") or [])[:3])))
    det = sum(1 for r in rows if r.get("outcome") == "detected")
    out += ["", "%d of %d detected." % (det, len(rows)), ""]
open(os.path.join(V, "selftest", "RESULTS.md"), "w").write("\n".join(out) + "\n")
print("\n".join(out[-3:]))

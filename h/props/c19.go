package props

import (
	"fmt"
	"net"
	"strconv"
	"strings"

	"github.com/honeytrap/honeytrap/server"

	"verif/h/core"
	"verif/h/lab"
)

// C19 — exactly the well-formed port entries that name a service are listened
// on. The recorded AddAddress list of the verif-mem listener and the stub that
// sees a probe connection are compared with a 30-line reference table builder,
// for every configuration in the bounded space; ToAddr is checked for all
// 65,536 ports x 2 protocols x host forms.

func init() { register("C19", driver{run: runC19, needsStorage: true}) }

// refAddr is the reference parse of a port string.
type refAddr struct {
	proto string
	ip    net.IP // nil = none given
	port  int
}

func refParse(s string) (refAddr, bool) {
	parts := strings.Split(s, "/")
	if len(parts) != 2 {
		return refAddr{}, false
	}
	proto := parts[0]
	if proto != "tcp" && proto != "udp" {
		return refAddr{}, false
	}
	rest := parts[1]
	host, port := "", rest
	if i := strings.LastIndex(rest, ":"); i >= 0 {
		host, port = rest[:i], rest[i+1:]
		if strings.HasPrefix(host, "[") && strings.HasSuffix(host, "]") {
			host = host[1 : len(host)-1]
		} else if strings.Contains(host, ":") {
			return refAddr{}, false
		}
	}
	if port == "" {
		return refAddr{}, false
	}
	for _, ch := range port {
		if ch < '0' || ch > '9' {
			return refAddr{}, false
		}
	}
	p, err := strconv.Atoi(port)
	if err != nil || p > 65535 {
		return refAddr{}, false
	}
	var ip net.IP
	if host != "" {
		ip = net.ParseIP(host)
		if ip == nil {
			return refAddr{}, false
		}
	}
	return refAddr{proto, ip, p}, true
}

func (a refAddr) unspecified() bool { return a.ip == nil || a.ip.IsUnspecified() }

func (a refAddr) compatible(b refAddr) bool {
	if a.proto != b.proto || a.port != b.port {
		return false
	}
	return a.unspecified() || b.unspecified() || a.ip.Equal(b.ip)
}

func (a refAddr) String() string {
	h := ""
	if a.ip != nil {
		h = a.ip.String()
	}
	return a.proto + " " + net.JoinHostPort(h, strconv.Itoa(a.port))
}

type c19Entry struct {
	port     string   // "" = key absent
	ports    []string // nil = key absent
	services []string
}

func (e c19Entry) toml() string {
	var b strings.Builder
	b.WriteString("[[port]]\n")
	if e.port != "" {
		fmt.Fprintf(&b, "port=%q\n", e.port)
	}
	if e.ports != nil {
		b.WriteString("ports=[")
		for i, p := range e.ports {
			if i > 0 {
				b.WriteString(",")
			}
			fmt.Fprintf(&b, "%q", p)
		}
		b.WriteString("]\n")
	}
	b.WriteString("services=[")
	for i, p := range e.services {
		if i > 0 {
			b.WriteString(",")
		}
		fmt.Fprintf(&b, "%q", p)
	}
	b.WriteString("]\n\n")
	return b.String()
}

func (e c19Entry) String() string {
	return fmt.Sprintf("{port=%q ports=%q services=%v}", e.port, e.ports, e.services)
}

type refListen struct {
	addr     refAddr
	services []string // defined services, in order
}

// c19Model is the reference table builder.
func c19Model(entries []c19Entry, defined map[string]bool) []refListen {
	var out []refListen
	for _, e := range entries {
		var ports []string
		ports = append(ports, e.ports...)
		if e.port != "" {
			ports = append(ports, e.port)
		}
		for _, ps := range ports {
			a, ok := refParse(ps)
			if !ok {
				continue
			}
			var svcs []string
			for _, s := range e.services {
				if defined[s] {
					svcs = append(svcs, s)
				}
			}
			if len(svcs) == 0 {
				continue
			}
			dup := false
			for _, l := range out {
				if l.addr.compatible(a) {
					dup = true
				}
			}
			if dup {
				continue
			}
			out = append(out, refListen{a, svcs})
		}
	}
	return out
}

const c19Services = `
[service.s1]
type="verif-plain"
name="s1"

[service.s2]
type="verif-plain"
name="s2"

[service.s3]
type="verif-plain"
name="s3"
`

func addrKey(a net.Addr) string {
	switch x := a.(type) {
	case *net.TCPAddr:
		h := ""
		if x.IP != nil {
			h = x.IP.String()
		}
		return "tcp " + net.JoinHostPort(h, strconv.Itoa(x.Port))
	case *net.UDPAddr:
		h := ""
		if x.IP != nil {
			h = x.IP.String()
		}
		return "udp " + net.JoinHostPort(h, strconv.Itoa(x.Port))
	}
	return a.Network() + " " + a.String()
}

// probe sends one connection/datagram with the given local address and returns
// the names of the stubs that saw it.
func c19Probe(s *lab.Server, proto string, lip string, port int) []string {
	lab.ResetStubs()
	if proto == "tcp" {
		conn := s.DialTCP(lip, port, "10.9.9.9", 40000)
		conn.Send([]byte("hello"))
		conn.CloseWrite()
	} else {
		s.SendUDP(lip, port, "10.9.9.9", 40000, []byte("hello"))
	}
	lab.Quiesce()
	var names []string
	for _, v := range lab.Visits() {
		names = append(names, v.Service)
	}
	return names
}

func c19RunConfig(c *core.Ctx, name string, entries []c19Entry) {
	var b strings.Builder
	b.WriteString(c19Services)
	for _, e := range entries {
		b.WriteString(e.toml())
	}
	lab.ResetStubs()
	s, err := lab.Start(b.String())
	c.Count("executions", 1)
	if err != nil {
		c.Violationf("C19:start", "%s: %v", name, err)
		return
	}
	lab.Quiesce()
	defer s.Stop()
	if err := s.Attach(); err != nil {
		c.Violationf("C19:start", "%s: %v", name, err)
		return
	}
	want := c19Model(entries, map[string]bool{"s1": true, "s2": true, "s3": true})
	var gotL, wantL []string
	for _, a := range s.L.Addrs {
		gotL = append(gotL, addrKey(a))
	}
	for _, w := range want {
		wantL = append(wantL, w.addr.String())
	}
	if fmt.Sprint(gotL) != fmt.Sprint(wantL) {
		c.Violationf("C19:listen-set", "%s entries=%v: listener was asked to listen on %v, expected %v", name, entries, gotL, wantL)
		return
	}
	// probes: every listened address, with a concrete local address
	for _, w := range want {
		lips := []string{}
		if w.addr.unspecified() {
			lips = append(lips, "10.0.0.5")
			if w.addr.proto == "udp" {
				lips = append(lips, "::") // what the socket listener reports for a wildcard UDP socket
			}
		} else {
			lips = append(lips, w.addr.ip.String())
		}
		for _, lip := range lips {
			got := c19Probe(s, w.addr.proto, lip, w.addr.port)
			c.Count("transitions", 1)
			if len(got) != 1 || got[0] != w.services[0] {
				c.Violationf("C19:reach", "%s entries=%v: probe to %s (local %s) was seen by %v, expected exactly [%s] (entry services %v)", name, entries, w.addr, lip, got, w.services[0], w.services)
				return
			}
		}
	}
	// a port nobody listens on reaches nobody
	if got := c19Probe(s, "tcp", "10.0.0.5", 9); len(got) != 0 {
		c.Violationf("C19:reach-unlistened", "%s: probe to an unconfigured port was seen by %v", name, got)
	}
	c.Outcome(fmt.Sprint(wantL), fmt.Sprint(want))
	if c.WantSample() && len(entries) >= 2 && len(want) >= 2 {
		c.Sample(map[string]interface{}{"entries": fmt.Sprint(entries), "listened": wantL})
	}
}

func runC19(c *core.Ctx) {
	// ---- ToAddr: all ports x both protocols, host forms, malformed strings
	for _, proto := range []string{"tcp", "udp"} {
		for base := 0; base < 65536; base += 4096 {
			proto, base := proto, base
			c.Case(fmt.Sprintf("toaddr/%s/%d", proto, base), func() {
				for p := base; p < base+4096; p++ {
					in := fmt.Sprintf("%s/%d", proto, p)
					c19CheckToAddr(c, in)
				}
				c.Outcome("toaddr", proto, fmt.Sprint(base))
			})
		}
	}
	c.Case("toaddr/forms", func() {
		ports := []string{"0", "1", "80", "1023", "1024", "32768", "65535", "65536", "70000", "-1", "", "+80", "0x50", "80 ", "８０"}
		hosts := []string{"", ":", "127.0.0.1:", "0.0.0.0:", "[::1]:", "[::]:", "10.0.0.1:", "::1:"}
		protos := []string{"tcp", "udp", "TCP", "icmp", "", "tcp4"}
		for _, pr := range protos {
			for _, h := range hosts {
				for _, p := range ports {
					c19CheckToAddr(c, pr+"/"+h+p)
				}
			}
		}
		for _, in := range []string{"", "80", "tcp", "tcp/", "/80", "tcp/80/1", "tcp//80", "tcp:80", "tcp/80/", "/", "//"} {
			c19CheckToAddr(c, in)
		}
		c.Sample(map[string]interface{}{"part": "ToAddr", "input": "tcp/[::1]:65535", "expected": "tcp [::1]:65535"})
	})

	// ---- configurations
	portStrs := []string{"tcp/80", "udp/80", "tcp/81", "tcp/127.0.0.1:80", "tcp/0.0.0.0:80", "tcp/[::1]:80", "tcp/10.0.0.1:80", "udp/127.0.0.1:80",
		"80", "tcp/80/1", "icmp/80", "tcp/65536", "tcp/-1", "tcp/", "tcp/127.0.0.1:", "tcp/0", "tcp/65535", "udp/[::]:80"}
	svcLists := [][]string{{"s1"}, {"s2"}, {"s1", "s2"}, {"s2", "s1"}, {"nope"}, {"nope", "s1"}, {"s1", "s1"}, {}}
	red := []string{"tcp/80", "tcp/127.0.0.1:80", "tcp/0.0.0.0:80", "udp/80", "tcp/10.0.0.1:80", "bad", "tcp/81", "udp/127.0.0.1:80"}

	var full []c19Entry
	for _, p := range portStrs {
		for _, sl := range svcLists {
			full = append(full, c19Entry{port: p, services: sl})
			full = append(full, c19Entry{ports: []string{p}, services: sl})
		}
	}
	for _, p := range red {
		for _, q := range red {
			for _, sl := range svcLists[:6] {
				full = append(full, c19Entry{ports: []string{p, q}, services: sl})
				full = append(full, c19Entry{port: p, ports: []string{q}, services: sl})
			}
		}
	}
	full = append(full, c19Entry{services: []string{"s1"}}, c19Entry{ports: []string{}, services: []string{"s1"}})

	for i, e := range full {
		i, e := i, e
		c.Case(fmt.Sprintf("cfg1/%d", i), func() { c19RunConfig(c, fmt.Sprintf("cfg1/%d", i), []c19Entry{e}) })
	}
	// pairs over a reduced entry alphabet
	var mid []c19Entry
	for _, p := range portStrs {
		for _, sl := range [][]string{{"s1"}, {"s2", "s1"}, {"nope"}, {"nope", "s3"}} {
			mid = append(mid, c19Entry{port: p, services: sl})
		}
	}
	for _, pq := range [][]string{{"tcp/80", "tcp/127.0.0.1:80"}, {"tcp/127.0.0.1:80", "tcp/80"}, {"tcp/10.0.0.1:80", "tcp/127.0.0.1:80"}, {"udp/80", "tcp/80"}, {"bad", "tcp/80"}, {"tcp/0.0.0.0:80", "tcp/81"}} {
		for _, sl := range [][]string{{"s1"}, {"s3", "s2"}} {
			mid = append(mid, c19Entry{ports: pq, services: sl})
			mid = append(mid, c19Entry{port: pq[0], ports: pq[1:], services: sl})
		}
	}
	for i := range mid {
		i := i
		c.Case(fmt.Sprintf("cfg2/%d", i), func() {
			for j := range mid {
				c19RunConfig(c, fmt.Sprintf("cfg2/%d,%d", i, j), []c19Entry{mid[i], mid[j]})
			}
		})
	}
	// triples (thorough: quadruples) over a small alphabet that keeps every duplicate/compatibility pattern
	small := []c19Entry{
		{port: "tcp/80", services: []string{"s1"}}, {port: "tcp/127.0.0.1:80", services: []string{"s2"}}, {port: "tcp/10.0.0.1:80", services: []string{"s3"}},
		{port: "tcp/0.0.0.0:80", services: []string{"s1", "s2"}}, {port: "udp/80", services: []string{"s2"}}, {port: "udp/127.0.0.1:80", services: []string{"s3"}},
		{port: "tcp/80", services: []string{"nope"}}, {ports: []string{"tcp/81", "tcp/80"}, services: []string{"s3"}}, {port: "bad", services: []string{"s1"}},
		{port: "tcp/[::1]:80", services: []string{"s2", "s3"}}, {port: "tcp/81", ports: []string{"udp/80"}, services: []string{"s1"}}, {port: "tcp/127.0.0.1:80", services: []string{"nope", "s1"}},
	}
	for i := range small {
		for j := range small {
			i, j := i, j
			c.Case(fmt.Sprintf("cfg3/%d,%d", i, j), func() {
				for k := range small {
					c19RunConfig(c, fmt.Sprintf("cfg3/%d,%d,%d", i, j, k), []c19Entry{small[i], small[j], small[k]})
					if c.Thorough() || (i+j+k)%3 == 0 {
						for l := range small {
							c19RunConfig(c, fmt.Sprintf("cfg4/%d,%d,%d,%d", i, j, k, l), []c19Entry{small[i], small[j], small[k], small[l]})
						}
					}
				}
			})
		}
	}
}

func c19CheckToAddr(c *core.Ctx, in string) {
	c.Count("executions", 1)
	c.Count("toaddr_inputs", 1)
	var addr net.Addr
	var proto string
	var port int
	var err error
	func() {
		defer func() {
			if r := recover(); r != nil {
				err = fmt.Errorf("panic: %v", r)
				c.Violationf("C19:toaddr-panic", "ToAddr(%q) panicked: %v", in, r)
			}
		}()
		addr, proto, port, err = server.ToAddr(in)
	}()
	want, ok := refParse(in)
	accepted := err == nil && addr != nil
	if accepted != ok {
		c.Violationf("C19:toaddr-accept", "ToAddr(%q): accepted=%v (err=%v), reference well-formed=%v", in, accepted, err, ok)
		return
	}
	if !ok {
		return
	}
	if addrKey(addr) != want.String() || proto != want.proto || port != want.port {
		c.Violationf("C19:toaddr-value", "ToAddr(%q) = %s (proto %q, port %d), reference %s", in, addrKey(addr), proto, port, want)
	}
}

package props

import (
	"crypto/sha1"
	"fmt"
	"io"
	"os"
	"path/filepath"
	"regexp"
	"sort"
	"strings"

	"github.com/honeytrap/honeytrap/services/filesystem"
	"github.com/honeytrap/honeytrap/services/ftp"

	"verif/h/core"
	"verif/h/lab"
)

// C11 — FTP clients cannot reach outside the service's filesystem root.
//
// (a) sandbox filesystem: explicit-state search over reachable working
//     directories (state = Cwd(); the only other field, root, is constant);
//     in every state RealPath and ChangeDir for every path over the component
//     alphabet {a, b, .., ., ""} up to 5 components, relative and absolute;
// (b) every operation of the exported FTP file driver with every path (<= 3
//     components) in every state, against a sentinel tree whose names are
//     drawn from the same alphabet and which lies beside and above the root;
// (c) FTP protocol sessions (commands without data connection) through the
//     real server in a bubble.

func init() { register("C11", driver{run: runC11, needsStorage: true}) }

var c11Comps = []string{"a", "b", "..", ".", ""}

func c11Paths(maxComps int) []string {
	var out []string
	var rec func(cur []string)
	rec = func(cur []string) {
		if len(cur) > 0 {
			p := strings.Join(cur, "/")
			out = append(out, p, "/"+p)
		}
		if len(cur) == maxComps {
			return
		}
		for _, c := range c11Comps {
			rec(append(append([]string(nil), cur...), c))
		}
	}
	rec(nil)
	// a sibling of the root whose name begins with the root's name ("R" / "Ra"): a containment test by
	// string prefix accepts it. One "Ra" component at any position of every path of <= 3 components.
	short := len(out)
	if maxComps > 4 {
		short = 0
		for i, p := range out {
			if strings.Count(strings.TrimPrefix(p, "/"), "/") <= 2 {
				short = i + 1
			}
		}
	}
	seen := map[string]bool{}
	for _, p := range out[:short] {
		abs := strings.HasPrefix(p, "/")
		parts := strings.Split(strings.TrimPrefix(p, "/"), "/")
		if len(parts) > 3 {
			continue
		}
		for i := 0; i <= len(parts); i++ {
			q := append(append(append([]string(nil), parts[:i]...), "Ra"), parts[i:]...)
			np := strings.Join(q, "/")
			if abs {
				np = "/" + np
			}
			if !seen[np] {
				seen[np] = true
				out = append(out, np)
			}
		}
	}
	// the same short paths written with backslashes (an ordinary file-name character here: anything that
	// turns them into separators after the containment step escapes)
	n0 := len(out)
	for _, p := range out[:n0] {
		if strings.Count(p, "/") >= 1 && strings.Count(p, "/") <= 4 && strings.Contains(p, "..") {
			out = append(out, strings.ReplaceAll(p, "/", "\\"))
			if strings.HasPrefix(p, "/") {
				out = append(out, "/"+strings.ReplaceAll(p[1:], "/", "\\"))
			}
		}
	}
	return out
}

// fixture builds <base>/ftp/R/{a/,a/b/,f} plus sentinels beside and above.
type c11Fixture struct {
	base, root string
	sentinels  []string // directories holding sentinel trees
}

func mkFixture(base string) *c11Fixture {
	fx := &c11Fixture{base: base, root: filepath.Join(base, "ftp", "R")}
	os.RemoveAll(base)
	fx.resetRoot()
	// sentinel names come from the same alphabet so that a lexical escape would hit them
	for _, d := range []string{filepath.Join(base, "ftp", "a"), filepath.Join(base, "ftp", "b"), filepath.Join(base, "a"), filepath.Join(base, "b"), filepath.Join(base, "ftp", "a", "b"), filepath.Join(base, "ftp", "Ra"), filepath.Join(base, "ftp", "Ra", "a")} {
		os.MkdirAll(d, 0755)
		os.WriteFile(filepath.Join(d, "f"), []byte("SENTINEL "+d), 0644)
		os.WriteFile(filepath.Join(d, "a"), []byte("SENTINEL-a "+d), 0644)
	}
	os.WriteFile(filepath.Join(base, "ftp", "f"), []byte("SENTINEL ftp/f"), 0644)
	os.WriteFile(filepath.Join(base, "f"), []byte("SENTINEL base/f"), 0644)
	return fx
}

func (fx *c11Fixture) resetRoot() {
	os.RemoveAll(fx.root)
	os.MkdirAll(filepath.Join(fx.root, "a", "b"), 0755)
	os.WriteFile(filepath.Join(fx.root, "f"), []byte("inside f"), 0644)
	os.WriteFile(filepath.Join(fx.root, "a", "f"), []byte("inside a/f"), 0644)
}

// snapshot of everything under base except the root itself
func (fx *c11Fixture) outside() string {
	var lines []string
	filepath.Walk(fx.base, func(p string, info os.FileInfo, err error) error {
		if err != nil {
			return nil
		}
		if p == fx.root {
			return filepath.SkipDir
		}
		l := fmt.Sprintf("%s %v %d", p, info.Mode(), info.Size())
		if info.Mode().IsRegular() {
			b, _ := os.ReadFile(p)
			l += fmt.Sprintf(" %x", sha1.Sum(b))
		}
		lines = append(lines, l)
		return nil
	})
	sort.Strings(lines)
	return strings.Join(lines, "\n")
}

func (fx *c11Fixture) inside() string {
	var lines []string
	filepath.Walk(fx.root, func(p string, info os.FileInfo, err error) error {
		if err != nil {
			return nil
		}
		lines = append(lines, fmt.Sprintf("%s %v %d", strings.TrimPrefix(p, fx.root), info.Mode().IsDir(), info.Size()))
		return nil
	})
	sort.Strings(lines)
	return strings.Join(lines, "\n")
}

func insideRoot(root, p string) bool {
	cp := filepath.Clean(p)
	return cp == root || strings.HasPrefix(cp, root+string(filepath.Separator))
}

func cwdOK(root, cwd string) bool {
	return strings.HasPrefix(cwd, "/") && filepath.Clean(cwd) == cwd && insideRoot(root, root+cwd)
}

func runC11(c *core.Ctx) {
	base := filepath.Join(lab.ScratchDir(), "c11")
	paths5 := c11Paths(5)
	paths3 := c11Paths(3)

	newFs := func(fx *c11Fixture, statePath []string) *filesystem.Htfs {
		h, err := filesystem.New(fx.base, "ftp", "R")
		if err != nil {
			panic(err)
		}
		for _, p := range statePath {
			h.ChangeDir(p)
		}
		return h
	}

	// ---- (a) explicit-state BFS over working directories
	c.Case("htfs/bfs", func() {
		fx := mkFixture(base + "-a")
		before := fx.outside()
		type node struct {
			cwd  string
			path []string
		}
		seen := map[string]bool{"/": true}
		frontier := []node{{"/", nil}}
		states, trans := 0, 0
		for len(frontier) > 0 {
			nd := frontier[0]
			frontier = frontier[1:]
			states++
			for _, p := range paths5 {
				h := newFs(fx, nd.path)
				if h.Cwd() != nd.cwd {
					c.Violationf("C11:htfs:nondeterministic", "replaying %v reached %q, not %q", nd.path, h.Cwd(), nd.cwd)
					return
				}
				rp := h.RealPath(p)
				trans++
				if !insideRoot(fx.root, rp) {
					c.Violationf("C11:htfs:realpath-escape", "cwd=%q RealPath(%q) = %q, outside root %q", nd.cwd, p, rp, fx.root)
				}
				err := h.ChangeDir(p)
				trans++
				cwd := h.Cwd()
				if !cwdOK(fx.root, cwd) {
					c.Violationf("C11:htfs:cwd-escape", "cwd=%q ChangeDir(%q) (err=%v) left the working directory at %q, which does not denote a location inside the root", nd.cwd, p, err, cwd)
					continue
				}
				if err == nil {
					if fi, e := os.Stat(fx.root + cwd); e != nil || !fi.IsDir() {
						c.Violationf("C11:htfs:cwd-not-dir", "cwd=%q ChangeDir(%q) succeeded but %q is not a directory inside the root", nd.cwd, p, cwd)
					}
				}
				if !seen[cwd] {
					seen[cwd] = true
					frontier = append(frontier, node{cwd, append(append([]string(nil), nd.path...), p)})
				}
			}
		}
		if after := fx.outside(); after != before {
			c.Violationf("C11:htfs:sentinel-changed", "the tree outside the root changed during path resolution")
		}
		c.Count("states", int64(states))
		c.Count("transitions", int64(trans))
		c.Count("executions", int64(trans))
		c.Outcome("htfs", fmt.Sprint(states), fmt.Sprint(len(seen)))
		c.Sample(map[string]interface{}{"part": "htfs-bfs", "reachable_working_directories": keys(seen), "paths_per_state": len(paths5), "example_path": "/a/../../b/./.."})
		os.RemoveAll(fx.base)
	})

	// ---- (b) every driver operation x every path x every state
	statePaths := [][]string{nil, {"a"}, {"a", "b"}}
	ops := []string{"Stat", "ListDir", "MakeDir", "DeleteDir", "DeleteFile", "PutFile", "PutFileAppend", "GetFile", "ChangeDir", "Rename"}
	for si, sp := range statePaths {
		for _, op := range ops {
			si, sp, op := si, sp, op
			c.Case(fmt.Sprintf("driver/%s/state%d", op, si), func() {
				fx := mkFixture(fmt.Sprintf("%s-b-%d-%s", base, si, op))
				before := fx.outside()
				pristine := fx.inside()
				for _, p := range paths3 {
					targets := []string{""}
					if op == "Rename" {
						targets = []string{"a", "/b", "../b", "../../f", "/a/../../a", "a/b/../../../b", "new", "/../new"}
					}
					for _, q := range targets {
						d := ftp.NewFileDriver(newFs(fx, sp))
						var got string
						func() {
							defer func() {
								if r := recover(); r != nil {
									got = fmt.Sprint("panic: ", r)
								}
							}()
							switch op {
							case "Stat":
								_, err := d.Stat(p)
								got = fmt.Sprint(err)
							case "ListDir":
								var names []string
								for _, fi := range d.ListDir(p) {
									names = append(names, fi.Name())
								}
								sort.Strings(names)
								got = strings.Join(names, ",")
								// a listing may only show entries of a directory inside the root
								rp := filepath.Clean(filepath.Join(fx.root, filepath.Join("/", strings.Join(sp, "/"), p)))
								_ = rp
							case "MakeDir":
								got = fmt.Sprint(d.MakeDir(p))
							case "DeleteDir":
								got = fmt.Sprint(d.DeleteDir(p))
							case "DeleteFile":
								got = fmt.Sprint(d.DeleteFile(p))
							case "PutFile":
								_, err := d.PutFile(p, strings.NewReader("UPLOAD"), false)
								got = fmt.Sprint(err)
							case "PutFileAppend":
								_, err := d.PutFile(p, strings.NewReader("APPEND"), true)
								got = fmt.Sprint(err)
							case "GetFile":
								_, rc, err := d.GetFile(p, 0)
								if err == nil {
									b, _ := io.ReadAll(rc)
									rc.Close()
									of, _ := rc.(*os.File)
									name := ""
									if of != nil {
										name = of.Name()
									}
									got = "ok " + name
									if strings.Contains(string(b), "SENTINEL") || (name != "" && !insideRoot(fx.root, name)) {
										c.Violationf("C11:driver:read-outside", "state cwd=%v GetFile(%q) opened %q (outside the root %q)", sp, p, name, fx.root)
									}
								} else {
									got = fmt.Sprint(err)
								}
							case "ChangeDir":
								err := d.ChangeDir(p)
								got = fmt.Sprint(err) + " " + d.CurDir()
								if !cwdOK(fx.root, d.CurDir()) {
									c.Violationf("C11:driver:cwd-escape", "state cwd=%v ChangeDir(%q) left the working directory at %q", sp, p, d.CurDir())
								}
							case "Rename":
								got = fmt.Sprint(d.Rename(p, q))
							}
						}()
						c.Count("executions", 1)
						c.Count("transitions", 1)
						if strings.HasPrefix(got, "panic") {
							c.Violationf("C11:driver:panic:"+op, "state cwd=%v %s(%q,%q): %s", sp, op, p, q, got)
						}
						if op == "ListDir" && strings.Contains(got, "SENT") {
							c.Violationf("C11:driver:list-outside", "state cwd=%v ListDir(%q) returned %s", sp, p, got)
						}
						if after := fx.outside(); after != before {
							c.Violationf("C11:driver:outside-changed:"+op, "state cwd=%v %s(%q,%q) changed the tree outside the root:\n%s", sp, op, p, q, diffLines(before, after))
							fx = mkFixture(fx.base)
							before = fx.outside()
						}
						if fx.inside() != pristine {
							fx.resetRoot()
						}
						c.Outcome(op, got)
					}
				}
				os.RemoveAll(fx.base)
			})
		}
	}

	// ---- (c) protocol sessions
	c11Sessions(c)
}

func keys(m map[string]bool) []string {
	var k []string
	for s := range m {
		k = append(k, s)
	}
	sort.Strings(k)
	return k
}

func diffLines(a, b string) string {
	am := map[string]bool{}
	for _, l := range strings.Split(a, "\n") {
		am[l] = true
	}
	var out []string
	bm := map[string]bool{}
	for _, l := range strings.Split(b, "\n") {
		bm[l] = true
		if !am[l] {
			out = append(out, "+ "+l)
		}
	}
	for l := range am {
		if !bm[l] {
			out = append(out, "- "+l)
		}
	}
	sort.Strings(out)
	if len(out) > 8 {
		out = out[:8]
	}
	return strings.Join(out, "\n")
}

var pwdRe = regexp.MustCompile(`^257 "([^"]*)"`)

func c11Sessions(c *core.Ctx) {
	pathsA := []string{"a", "/a", "..", "../..", "/..", "a/../..", "/a/b/../../..", "../b", "/../b/f", "..//..//a", "./../f", "b", "/a/b", "../../../../f"}
	var toks []string
	for _, p := range pathsA {
		toks = append(toks, "CWD "+p, "MKD "+p, "RMD "+p, "DELE "+p, "MDTM "+p, "SIZE "+p, "RNFR "+p+"\r\nRNTO /../b/moved", "RNFR f\r\nRNTO "+p)
	}
	toks = append(toks, "CDUP", "PWD", "XCUP", "XPWD")
	cwdToks := []string{}
	for _, p := range pathsA {
		cwdToks = append(cwdToks, "CWD "+p)
	}
	cwdToks = append(cwdToks, "CDUP")

	run := func(s *lab.Server, fxOutside func() string, before string, reset func(), seq []string) string {
		reset()
		conn := dial(s, "ftp", 0)
		lab.Quiesce()
		conn.Send([]byte("USER anonymous\r\nPASS anonymous\r\n"))
		lab.Quiesce()
		conn.Take()
		for _, t := range append(append([]string(nil), seq...), "PWD") {
			conn.Send([]byte(t + "\r\n"))
			lab.Quiesce()
			c.Count("transitions", 1)
			r := string(conn.Take())
			for _, line := range strings.Split(r, "\r\n") {
				if m := pwdRe.FindStringSubmatch(line); m != nil && strings.Contains(line, "current directory") {
					if !strings.HasPrefix(m[1], "/") || filepath.Clean(m[1]) != m[1] {
						c.Violationf("C11:ftp:pwd-escape", "ftp commands %q: the working directory reported is %q, which does not denote a location inside the root", seq, m[1])
					}
				}
			}
		}
		conn.CloseWrite()
		settleConn(conn)
		c.Count("executions", 1)
		lab.ResetEvents()
		after := fxOutside()
		if after != before {
			c.Violationf("C11:ftp:outside-changed", "ftp commands %q changed the tree outside the root:\n%s", seq, diffLines(before, after))
		}
		return after
	}

	for fi, first := range toks {
		fi, first := fi, first
		c.Case(fmt.Sprintf("ftp/%d:%s", fi, strings.ReplaceAll(first, "\r\n", "|")), func() {
			s := startSvc("ftp")
			defer s.Stop()
			root := ftpRoot()
			fbase := filepath.Dir(filepath.Dir(root)) // <scratch>/ftpbase
			fx := &c11Fixture{base: fbase, root: root}
			// sentinels beside and above the (randomly named) root
			for _, d := range []string{filepath.Join(fbase, "ftp", "a"), filepath.Join(fbase, "ftp", "b"), filepath.Join(fbase, "a"), filepath.Join(fbase, "b")} {
				os.MkdirAll(d, 0755)
				os.WriteFile(filepath.Join(d, "f"), []byte("SENTINEL "+d), 0644)
			}
			os.WriteFile(filepath.Join(fbase, "ftp", "f"), []byte("SENTINEL"), 0644)
			os.WriteFile(filepath.Join(fbase, "f"), []byte("SENTINEL"), 0644)
			before := fx.outside()
			before = run(s, fx.outside, before, fx.resetRoot, []string{first})
			for _, second := range toks {
				before = run(s, fx.outside, before, fx.resetRoot, []string{first, second})
			}
			// length 3: a directory change first, then every pair (thorough) / pairs with the first token (quick)
			if strings.HasPrefix(first, "CWD") || first == "CDUP" {
				for _, second := range toks {
					thirds := cwdToks
					if c.Thorough() {
						thirds = toks
					}
					for _, third := range thirds {
						before = run(s, fx.outside, before, fx.resetRoot, []string{first, second, third})
					}
				}
			}
			c.Outcome("ftp", first)
			if c.WantSample() && fi%17 == 3 {
				c.Sample(map[string]interface{}{"part": "ftp-sessions", "first_command": first, "alphabet_size": len(toks)})
			}
			os.RemoveAll(filepath.Join(fbase, "a"))
			os.RemoveAll(filepath.Join(fbase, "b"))
			os.Remove(filepath.Join(fbase, "f"))
		})
	}
}

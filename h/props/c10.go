package props

import (
	"fmt"
	"strings"

	"verif/h/core"
	"verif/h/lab"
)

// C10 — UDP services cannot be used as traffic amplifiers: one source IP gets
// at most the limiter's burst (4) of response datagrams while the (fake) clock
// stands still, whatever it sends and from whatever ports; one source never
// uses up another's allowance (differential against the run without it).

func init() { register("C10", driver{run: runC10, needsStorage: true}) }

const c10Burst = 4

type c10Sender struct {
	ip   string
	port int
}

// c10Send injects one datagram and returns the replies grouped by destination IP.
func c10Send(s *lab.Server, svc string, from c10Sender, payload []byte, replies map[string][]string) {
	d := s.SendUDP(serverIP, svcSpecs[svc].port, from.ip, from.port, payload)
	lab.Quiesce()
	for _, r := range d.Replies() {
		ip := r.To[:strings.LastIndex(r.To, ":")]
		replies[ip] = append(replies[ip], fmt.Sprintf("%x", r.Data))
	}
}

func runC10(c *core.Ctx) {
	all := udpSeeds()
	svcs := []string{"tftp", "memcached-udp", "snmp", "counterstrike"}
	// alphabets: the reply-drawing requests first
	pickNames := map[string][]string{
		"tftp":          {"RRQ", "WRQ", "data stray", "ack", "RRQ2", "op 9", "wrq+opts", "data empty"},
		"memcached-udp": {"stats", "get k", "set/3", "get+stats", "many", "version", "no hdr", "flush_all"},
		"snmp":          {"get public", "getnext private", "set x", "v2c", "bulk", "trunc", "pdu empty", "v3"},
		"counterstrike": {"a2s_info", "a2s_player", "a2s_rules", "challenge", "ping", "unknown", "short4", "hdr fe"},
	}
	L := 5
	if c.Thorough() {
		L = 6
	}
	for _, svc := range svcs {
		svc := svc
		var sigma []seed
		for _, n := range pickNames[svc] {
			for _, sd := range all[svc] {
				if sd.name == n {
					sigma = append(sigma, sd)
				}
			}
		}
		if len(sigma) < 5 {
			panic("C10: alphabet for " + svc + " incomplete")
		}
		// ---- all request sequences of length <= L from one IP, source port varying per datagram.
		// One server per first token; every sequence uses a fresh source IP (fresh bucket).
		for fi := range sigma {
			fi := fi
			c.Case(fmt.Sprintf("%s/seq/%s", svc, sigma[fi].name), func() {
				s := startSvc(svc)
				defer s.Stop()
				ipn := 0
				idx := make([]int, L)
				for pass := 0; ; pass++ {
					// sequence = sigma[fi], then sigma[idx[1..]]; evaluate every prefix length via one run.
					// Every sequence is run twice: source port varying per datagram, and one fixed source port
					// (protocol state such as a TFTP upload in progress is keyed by address and port).
					fixedPort := pass%2 == 1
					ipn++
					ip := fmt.Sprintf("10.%d.%d.%d", 100+ipn>>16, (ipn>>8)&255, ipn&255)
					replies := map[string][]string{}
					var names []string
					for k := 0; k < L; k++ {
						t := sigma[fi]
						if k > 0 {
							t = sigma[idx[k]]
						}
						names = append(names, t.name)
						port := 40000 + k
						if fixedPort {
							port = 40000
						}
						c10Send(s, svc, c10Sender{ip, port}, t.b, replies)
						c.Count("transitions", 1)
						if n := len(replies[ip]); n > c10Burst {
							c.Violationf("C10:"+svc+":burst-exceeded", "%s: source %s received %d response datagrams for the request sequence [%s] (fixed source port: %v); the limiter's burst is %d", svc, ip, n, strings.Join(names, " ; "), fixedPort, c10Burst)
							break
						}
					}
					for to := range replies {
						if to != ip {
							c.Violationf("C10:"+svc+":reply-to-other", "%s: a response went to %s, which never sent anything (sender %s)", svc, to, ip)
						}
					}
					c.Count("executions", 1)
					c.Class(fmt.Sprintf("%s replies=%d", svc, len(replies[ip])))
					c.Outcome(svc, fmt.Sprint(len(replies[ip])), strings.Join(names[:2], ";"))
					lab.ResetEvents()
					if !fixedPort {
						continue // same sequence again with a fixed source port
					}
					// next index vector over positions 1..L-1
					k := L - 1
					for k >= 1 {
						idx[k]++
						if idx[k] < len(sigma) {
							break
						}
						idx[k] = 0
						k--
					}
					if k < 1 {
						break
					}
				}
			})
		}
		// ---- long bursts of each single token
		for _, n := range []int{7, 8, 50, 200} {
			n := n
			c.Case(fmt.Sprintf("%s/burst/%d", svc, n), func() {
				for _, t := range sigma {
					s := startSvc(svc)
					replies := map[string][]string{}
					for i := 0; i < n; i++ {
						c10Send(s, svc, c10Sender{"10.7.7.7", 1024 + i}, t.b, replies)
						c.Count("transitions", 1)
					}
					if got := len(replies["10.7.7.7"]); got > c10Burst {
						c.Violationf("C10:"+svc+":burst-exceeded", "%s: %d x %q from one IP over %d source ports drew %d responses; the burst is %d", svc, n, t.name, n, got, c10Burst)
					}
					c.Count("executions", 1)
					c.Class(fmt.Sprintf("%s burst replies=%d", svc, len(replies["10.7.7.7"])))
					s.Stop()
					lab.ResetEvents()
				}
			})
		}
		// ---- interleaved bursts from 2 and 3 IPs: all interleavings, differential per IP
		req := sigma[0]
		solo := func(ip string, count int) []string {
			s := startSvc(svc)
			defer s.Stop()
			replies := map[string][]string{}
			for i := 0; i < count; i++ {
				c10Send(s, svc, c10Sender{ip, 2000 + i}, req.b, replies)
			}
			return replies[ip]
		}
		type mix struct {
			ips  []string
			lens []int
		}
		mixes := []mix{{[]string{"10.8.0.1", "10.8.0.2"}, []int{6, 6}}, {[]string{"10.8.0.1", "10.8.0.2"}, []int{3, 7}}, {[]string{"10.8.0.1", "10.8.0.2", "10.8.0.3"}, []int{5, 5, 2}}}
		if c.Thorough() {
			mixes = append(mixes, mix{[]string{"10.8.0.1", "10.8.0.2", "10.8.0.3"}, []int{4, 4, 4}})
		}
		for mi, m := range mixes {
			mi, m := mi, m
			c.Case(fmt.Sprintf("%s/mix/%d", svc, mi), func() {
				want := map[string][]string{}
				for i, ip := range m.ips {
					want[ip] = solo(ip, m.lens[i])
				}
				interleavings(m.lens, func(order []int) {
					s := startSvc(svc)
					replies := map[string][]string{}
					sent := make([]int, len(m.ips))
					for _, who := range order {
						c10Send(s, svc, c10Sender{m.ips[who], 2000 + sent[who]}, req.b, replies)
						sent[who]++
						c.Count("transitions", 1)
					}
					for _, ip := range m.ips {
						if len(replies[ip]) > c10Burst {
							c.Violationf("C10:"+svc+":burst-exceeded", "%s: %s received %d responses in the interleaving %v", svc, ip, len(replies[ip]), order)
						}
						if fmt.Sprint(replies[ip]) != fmt.Sprint(want[ip]) {
							c.Violationf("C10:"+svc+":allowance-shared", "%s: in the interleaving %v source %s received %d responses, but %d when it is the only sender", svc, order, ip, len(replies[ip]), len(want[ip]))
						}
					}
					c.Count("executions", 1)
					c.Outcome(svc, "mix", fmt.Sprint(len(replies[m.ips[0]]), len(replies[m.ips[1]])))
					s.Stop()
					lab.ResetEvents()
				})
				if c.WantSample() {
					c.Sample(map[string]interface{}{"service": svc, "senders": m.ips, "datagrams_each": m.lens, "request": req.name, "solo_replies": map[string]int{m.ips[0]: len(want[m.ips[0]])}})
				}
			})
		}
	}
}

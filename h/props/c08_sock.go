package props

import (
	"fmt"
	"net"
	"strings"
	"time"

	"verif/h/core"
	"verif/h/lab"
)

// C08/sock — the same dispatch rule through the REAL socket listener
// (listener type "socket": kernel UDP and TCP sockets on loopback, real clock):
// the pseudo-connections the listener builds for datagrams carry the address
// of the socket they arrived on, so each datagram reaches the services of its
// own port entry. Positive observations are awaited (cap 30 s).

func init() { register("C08/sock", driver{run: runC08Sock, needsStorage: true, noBubble: true}) }

func freePort(network string) int {
	if network == "udp" {
		pc, err := net.ListenPacket("udp", "127.0.0.1:0")
		if err != nil {
			panic(err)
		}
		defer pc.Close()
		return pc.LocalAddr().(*net.UDPAddr).Port
	}
	l, err := net.Listen("tcp", "127.0.0.1:0")
	if err != nil {
		panic(err)
	}
	defer l.Close()
	return l.Addr().(*net.TCPAddr).Port
}

func runC08Sock(c *core.Ctx) {
	type entry struct {
		proto string
		svc   string
	}
	layouts := [][]entry{
		{{"udp", "p1"}},
		{{"udp", "p1"}, {"udp", "p2"}},
		{{"udp", "p1"}, {"tcp", "p2"}},
		{{"tcp", "p1"}, {"udp", "p2"}},
		{{"udp", "p1"}, {"udp", "p2"}, {"tcp", "p1"}},
		{{"tcp", "p2"}, {"udp", "p2"}, {"udp", "p1"}},
	}
	for li, lay := range layouts {
		li, lay := li, lay
		c.Case(fmt.Sprintf("sock/layout%d", li), func() {
			ports := make([]int, len(lay))
			var b strings.Builder
			b.WriteString("[listener]\ntype=\"socket\"\n\n" + c08Services)
			for i, e := range lay {
				ports[i] = freePort(e.proto)
				fmt.Fprintf(&b, "[[port]]\nport=\"%s/127.0.0.1:%d\"\nservices=[%q]\n\n", e.proto, ports[i], e.svc)
			}
			b.WriteString("[channel.cap]\ntype=\"verif-capture\"\nid=\"cap\"\n\n[[filter]]\nchannel=[\"cap\"]\n")
			lab.ResetEvents()
			lab.ResetStubs()
			s, err := lab.Start(b.String())
			if err != nil {
				panic(err)
			}
			defer s.Stop()
			desc := func() string {
				var p []string
				for i, e := range lay {
					p = append(p, fmt.Sprintf("%s/127.0.0.1:%d->%s", e.proto, ports[i], e.svc))
				}
				return "socket listener, port entries [" + strings.Join(p, " ") + "]"
			}
			// wait until the sockets are bound: a TCP port accepts, a UDP port is taken
			time.Sleep(300 * time.Millisecond)
			for i, e := range lay {
				payload := []byte(fmt.Sprintf("probe-%d-%s", i, e.proto))
				if e.proto == "udp" {
					uc, err := net.Dial("udp", fmt.Sprintf("127.0.0.1:%d", ports[i]))
					if err != nil {
						panic(err)
					}
					ok := false
					for try := 0; try < 60 && !ok; try++ {
						if try%10 == 0 {
							uc.Write(payload)
						}
						ok = waitUntil(500*time.Millisecond, func() bool {
							for _, v := range lab.Visits() {
								if string(v.Data) == string(payload) {
									return true
								}
							}
							return false
						})
					}
					uc.Close()
				} else {
					var tc net.Conn
					waitUntil(30*time.Second, func() bool {
						var err error
						tc, err = net.DialTimeout("tcp", fmt.Sprintf("127.0.0.1:%d", ports[i]), time.Second)
						return err == nil
					})
					if tc != nil {
						tc.Write(payload)
						tc.(*net.TCPConn).CloseWrite()
						waitUntil(30*time.Second, func() bool {
							for _, v := range lab.Visits() {
								if string(v.Data) == string(payload) {
									return true
								}
							}
							return false
						})
						tc.Close()
					}
				}
				c.Count("transitions", 1)
				var got []string
				for _, v := range lab.Visits() {
					if string(v.Data) == string(payload) {
						got = append(got, v.Service)
					}
				}
				if len(got) != 1 || got[0] != e.svc {
					c.Violationf("C08:sock:dispatch:"+e.proto, "%s: the %s probe %q sent to port %d was read by services %v, expected exactly [%s] (all visits: %s)", desc(), e.proto, payload, ports[i], got, e.svc, visitSummary())
				}
			}
			c.Count("executions", 1)
			c.Outcome("sock", fmt.Sprint(li))
		})
	}
}

func visitSummary() string {
	var p []string
	for _, v := range lab.Visits() {
		p = append(p, fmt.Sprintf("%s@%s<-%q", v.Service, v.Local, trunc(string(v.Data), 20)))
	}
	return strings.Join(p, "; ")
}

#!/usr/bin/env python3
"""Regenerates /verif/MANIFEST.json from lib/propmeta.py (run from /verif)."""
import json, os, subprocess, sys
sys.path.insert(0, os.path.dirname(os.path.abspath(__file__)))
from propmeta import META, NOT_APPLICABLE, HOOK_COMMITS

ALL = ["C%02d" % i for i in range(1, 21)]
checks = []
for pid in ALL:
    m = META.get(pid)
    if not m or m.get("disabled"):
        continue
    checks.append({
        "property_id": pid,
        "quick_cmd": "./vf check %s --tier quick" % pid,
        "thorough_cmd": "./vf check %s --tier thorough" % pid,
        "evidence_file": "/verif/evidence/%s.json" % pid,
        "replay_cmd_template": "./vf replay {path}",
        "engine": "vf",
        "level_claimed": {
            "category": m.get("level", "model_checking"),
            "text": m.get("level_text", "Bounded exhaustive exploration of the real implementation: " + m["rule"]),
            "design_ref": "DESIGN.md section 3, " + pid,
        },
        "level_note": "; ".join(m.get("assumptions", [])) + ". Bounds: quick = %s; thorough = %s." % (m.get("bounds_quick", m.get("bounds", "")), m.get("bounds_thorough", m.get("bounds", ""))),
        "technique": m.get("technique", "stateless model checking of the implementation: exhaustive enumeration of the bounded input/configuration/schedule space under a harness-owned transport, scheduler and fake clock, oracle = reference model / differential"),
    })
claimed = {c["property_id"] for c in checks}
na = [{"property_id": p, "reason": NOT_APPLICABLE.get(p, "check not built yet in this revision of /verif (driver pending); not claimed")} for p in ALL if p not in claimed]
man = {
    "version": 1,
    "setup_cmd": "./vf setup",
    "hooks": {
        "guard": "verif",
        "enable": "go1.26.8 test -c -tags verif ./props in /verif/h (module replace github.com/honeytrap/honeytrap => /repo); files guarded by //go:build verif",
        "baseline_off_cmd": "cd /repo && GOFLAGS=-mod=mod go test -vet=off -count=1 -timeout 25m ./...",
        "source_commits": HOOK_COMMITS,
        "add_only": True,
    },
    "engines": [{
        "name": "vf", "path": "vf", "serves_properties": sorted(claimed),
        "kind_free_text": "python orchestrator (sharding, crash attribution, replay, known findings, evidence) + Go worker binaries (h/) that run the real honeytrap code inside testing/synctest bubbles: in-memory transports with explicit segmentation, fake clock, exact quiescence; exhaustive enumeration of bounded input / configuration / schedule / history spaces against reference models",
    }],
    "checks": checks,
    "not_applicable": na,
    "notes": "All checks rebuild the harness against /repo's current working tree (go build cache under /verif/.cache). Scratch data lives under /dev/shm/vf-<pid> and is removed on exit. known_findings.json lists open findings (suppressed, printed as KNOWN-FINDING) and fixed: records.",
}
with open("MANIFEST.json", "w") as f:
    json.dump(man, f, indent=1)
    f.write("\n")
print("MANIFEST.json: %d checks, %d not_applicable" % (len(checks), len(na)))

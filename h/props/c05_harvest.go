package props

import (
	"bytes"
	"encoding/json"
	"fmt"

	"github.com/honeytrap/honeytrap/event"

	"verif/h/core"
	"verif/h/lab"
)

// c05Harvest runs the token grammars of C04 against the real services and
// checks that every event they emit serialises the way the channels do it
// (snapshot map -> encoding/json) and that the JSON carries every key.
func c05Harvest(c *core.Ctx) {
	check := func(svc string, evs []lab.EventMap) {
		for _, m := range evs {
			c.Count("harvested_events", 1)
			e := event.New()
			for k, v := range m {
				e.Store(k, v)
			}
			if _, err := marshalLikeChannels(e); err != nil {
				c.Violationf("C05:harvest:"+svc, "%s event %s: %v", svc, trunc(dumpEvent(m), 300), err)
			}
			// payload fields, when present, must agree with each other
			if hxs, ok := m["payload-hex"].(string); ok {
				p, _ := m["payload"].(string)
				l, _ := m["payload-length"].(int)
				if fmt.Sprintf("%x", p) != hxs || l != len(p) {
					c.Violationf("C05:harvest-payload:"+svc, "%s: payload/payload-hex/payload-length disagree in %s", svc, trunc(dumpEvent(m), 300))
				}
			}
			var buf bytes.Buffer
			json.NewEncoder(&buf).Encode(m)
			c.Outcome("harvest", svc, lab.Str(m, "type"), fmt.Sprint(len(m)))
		}
	}
	tcp := []grammar{ftpGrammar(), smtpGrammar(), redisGrammar(), memcachedGrammar(false), telnetGrammar(), httpGrammar(), ldapGrammar()}
	tcp = append(tcp, httpishGrammars()...)
	for _, g := range tcp {
		g := g
		c.Case("harvest/"+g.svc, func() {
			if g.oneShot {
				for _, t := range g.tokens {
					s := startSvc(g.svc)
					conn := dial(s, g.svc, 0)
					conn.Send(t.bytes)
					lab.Quiesce()
					conn.CloseWrite()
					settleConn(conn)
					check(g.svc, allEvents())
					s.Stop()
					c.Count("executions", 1)
				}
				return
			}
			s := startSvc(g.svc)
			defer s.Stop()
			conn := dial(s, g.svc, 0)
			lab.Quiesce()
			for _, t := range append(append([]token(nil), g.prologue...), g.tokens...) {
				conn.Send(t.bytes)
				lab.Quiesce()
			}
			conn.CloseWrite()
			settleConn(conn)
			check(g.svc, allEvents())
			c.Count("executions", 1)
		})
	}
	// every decimal field of every seed replaced by boundary and odd numeric spellings: what the services
	// record for them must still serialise
	seedsBySvc := tcpSeeds()
	for _, svc := range []string{"memcached", "redis", "smtp", "ftp", "http", "telnet", "ipp", "elasticsearch"} {
		for si, a := range seedsBySvc[svc] {
			svc, si, a := svc, si, a
			runs := digitRuns(a.b)
			if len(a.b) > 400 || len(runs) == 0 {
				continue
			}
			c.Case(fmt.Sprintf("harvest-numeric/%s/%d:%s", svc, si, a.name), func() {
				s := startSvc(svc)
				defer s.Stop()
				k := 0
				for _, r := range runs {
					old := string(a.b[r[0]:r[1]])
					for _, v := range numericBoundaries(old) {
						m := append(append(append([]byte(nil), a.b[:r[0]]...), v...), a.b[r[1]:]...)
						lab.ResetEvents()
						k++
						conn := dial(s, svc, k%5)
						lab.Quiesce()
						conn.Send(m)
						lab.Quiesce()
						conn.CloseWrite()
						settleConn(conn)
						check(svc, allEvents())
						c.Count("executions", 1)
					}
				}
			})
		}
	}
	for _, g := range udpGrammars() {
		g := g
		c.Case("harvest/udp/"+g.svc, func() {
			s := startSvc(g.svc)
			defer s.Stop()
			ip, port := clientAddr(0)
			for _, t := range g.tokens {
				s.SendUDP(serverIP, svcSpecs[g.svc].port, ip, port, t.bytes)
				lab.Quiesce()
			}
			check(g.svc, allEvents())
			c.Count("executions", 1)
		})
	}
	// raw garbage to every service: error events must serialise too
	for _, name := range []string{"adb", "vnc", "ssh-simulator", "ssh-auth", "https", "ipp", "ntp", "cwmp", "docker"} {
		name := name
		c.Case("harvest/raw/"+name, func() {
			for _, in := range [][]byte{[]byte("\x00"), []byte("GET / HTTP/1.0\r\n\r\n"), []byte("SSH-2.0-x\r\n"), []byte("RFB 003.008\n"), []byte("CNXN\x00\x00\x00\x01\x00\x10\x00\x00\x07\x00\x00\x00\x32\x02\x00\x00\xbc\xb1\xa7\xb1host::\x00"), bytes.Repeat([]byte{0xff}, 64)} {
				s := startSvc(name)
				sp := svcSpecs[name]
				if sp.proto == "udp" {
					ip, port := clientAddr(0)
					s.SendUDP(serverIP, sp.port, ip, port, in)
					lab.Quiesce()
				} else {
					conn := dial(s, name, 0)
					lab.Quiesce()
					conn.Send(in)
					lab.Quiesce()
					conn.CloseWrite()
					settleConn(conn)
				}
				check(name, allEvents())
				s.Stop()
				c.Count("executions", 1)
			}
		})
	}
}

"""Per-property evidence metadata used by the orchestrator (rule text, bounds, assumptions)."""

COMMON_ASSUME = [
    "Go 1.26.8 runtime; testing/synctest quiescence (synctest.Wait) and fake clock are exact",
    "harness plug-ins (memconn, verif-mem listener, verif-capture channel) are faithful net.Conn/listener/channel implementations",
    "honeytrap is compiled from /repo's current working tree at check time (module replace => /repo)",
]

META = {
    "C05": dict(
        rule="exhaustive enumeration on the real event package: Payload for all 1- and 2-byte strings and boundary lengths x 5 fill patterns; SourceAddr/DestinationAddr over address kinds x ports; all ordered tuples (<=2 quick, <=3 thorough) of 16 constructor options vs. a map model; MergeFrom/CopyFrom over all 3-key maps x pre-existing subsets x value kinds; every event harvested from the service dialogues marshalled the way the channels do. Distinct = distinct (part, input) observation classes.",
        bounds_quick="2-byte strings exhaustive; option tuples depth 2; merge 3 keys",
        bounds_thorough="2-byte strings exhaustive; option tuples depth 3; merge 3 keys",
        assumptions=COMMON_ASSUME,
    ),
    "C17": dict(
        rule="decoder: explicit-state BFS on the real services/decoder object per buffer (state = (cursor, sticky-error flag); successors built by replaying the shortest path on a fresh decoder over a cap-limited buffer) over all buffers of length 0..2 (all byte values) and 3..6 over {00,01,7f,80,ff}, alphabet {Byte,Int16,Int32,Uint32,PeekByte,PeekInt16,Data,Copy(n),Seek(n)} n in -3..8, depth 4, every transition compared with a reference decoder; plus all unmerged operation sequences of length 3 on buffers <=3 bytes. IPP: requests built by an independent RFC 8010 encoder (5 operations x versions x request ids x documents; one attribute of every supported value tag at every position; ordered attribute pairs) POSTed to the real ipp service through server.Run in a bubble; reply parsed by an independent parser. Distinct = distinct per-buffer (states,transitions) outcomes and distinct IPP (request class, reply shape) outcomes.",
        bounds_quick="decoder depth 4 (BFS), unmerged depth 3; IPP: 1 extra attr x 5 positions, pruned pairs",
        bounds_thorough="decoder depth 4 (BFS), unmerged depth 4 on buffers <=2; IPP: all ordered pairs, 64 KiB document",
        assumptions=COMMON_ASSUME + ["decoder state canonicalisation: methods read only (data, offset) and write only (offset, lasterror) - cross-checked by the unmerged sequence enumeration"],
    ),
    "C06": dict(
        rule="every configuration is run through the real server.New+Run wiring in a bubble: channel sets {c1},{c1,c2},{c1,c2,c3},{} x all filter lists of length 0..2 over the full 216-filter alphabet (6 channel lists incl. duplicate and unknown names x 6 category lists x 6 service lists incl. absent, empty, anchors, alternation) plus length 3 (thorough: 4) over a pairwise-complete 36-filter alphabet; 12 events (category/service over a,b,ab,'',missing,int) are put on the real bus through the channel handle a service receives; per-channel ordered delivery lists are compared with a reference routing model, the token with the sensor token, and each channel's list with a real run of the configuration projected on that channel alone. Distinct = distinct per-channel delivery outcomes.",
        bounds_quick="filters <=2 full alphabet, 3 reduced; 12 events",
        bounds_thorough="filters <=2 full alphabet, 3-4 reduced; 12 events",
        assumptions=COMMON_ASSUME + ["an empty (but present) expression list is treated like an absent one, as the wiring does; missing or non-string category/service match as the empty string"],
    ),
    "C19": dict(
        rule="ToAddr called for all 65,536 ports x {tcp,udp} plus host forms x boundary/malformed ports x protocol spellings, compared with an independent reference parser; configurations run through the real server.New+Run with the recording verif-mem listener: every single port entry over 18 port strings x {port, ports, both} x 8 service lists (defined, undefined, duplicate, empty), all ordered pairs over an 84-entry alphabet, all triples (and a third of / thorough: all quadruples) over a 12-entry alphabet keeping every duplicate/compatibility pattern; oracle = reference table builder (AddAddress list, order and content) and, per listened address, the stub service that sees a probe connection/datagram. Distinct = distinct (listen list, service table) outcomes.",
        bounds_quick="<=2 entries full/84-entry alphabet; 3 entries and 1/3 of 4 entries over 12-entry alphabet",
        bounds_thorough="as quick plus all 4-entry configurations over the 12-entry alphabet",
        assumptions=COMMON_ASSUME + ["host names (DNS) are not used in port strings; addresses are compatible when protocol and port are equal and either IP is absent/unspecified or both are equal"],
    ),
    "C08": dict(
        rule="through the real server.New+Run with stub services registered via the public registry (plain = no detector, det-X = detector 'first byte is X'): every service list of length 0..3 (thorough 4) over {p1,p2,dA,dB,dA2} on one TCP port x 6 first payloads (none, A.., B.., C.. of 1025 bytes, 1-2 byte ones) x first-segment sizes {1,2,1023,1024,all} x rest in 1-2 segments; the same lists on a UDP port through the datagram dispatcher; port tables of 2 and 3 ports (wildcard / 127.0.0.1 / 10.0.0.1 / 0.0.0.0, tcp/udp, two port numbers) x 7 probe addresses. Oracle: reference findService on the first segment delivered (<=1024 bytes), exactly one stub invoked (or none and the connection closed), bytes read by the stub == full client stream. Distinct = distinct (chosen service, list shape, payload, segmentation) outcomes.",
        bounds_quick="lists <=3; 5 first-segment sizes; tables of 2 (half of list pairs) and 1/3 of tables of 3",
        bounds_thorough="lists <=4; 8 first-segment sizes; all tables of 2 and 3",
        assumptions=COMMON_ASSUME + ["a detector is applied to the first segment the client's stack delivered (<=1024 bytes); a client that sends nothing to a list whose decision needs a detector is not judged"],
    ),
    "C04": dict(
        rule="for each service a token grammar (complete commands/requests with the events the generator expects for them): all token sequences up to depth 2 (thorough 3; one request per connection for the single-request services) x deliveries {unsegmented, lock-step, every single cut point, (thorough, streams <=64 bytes) every pair of cut points, 1-byte dribble stepwise and pre-queued}; each execution runs a fresh real server (server.New+Run) in a bubble and compares the ordered canonical event list of the connection with the expected list. UDP services: every datagram alone and all ordered sequences of <=2 (thorough 3) datagrams through the real datagram dispatcher. Distinct = distinct (service, event list) outcomes.",
        bounds_quick="depth 2; cut-1 exhaustive; dribble for streams <=200 bytes",
        bounds_thorough="depth 3; cut-1 exhaustive; cut-2 exhaustive for streams <=64 bytes",
        assumptions=COMMON_ASSUME + ["expected events come from the token generator (fields the client controls: see DESIGN.md appendix A); replies are not judged here"],
        deadline_quick=600, deadline_thorough=3000,
    ),
    "C03": dict(
        rule="services ldap, ftp, smtp, telnet, redis, memcached, http (TCP) and tftp (UDP) behind the real server.New+Run; scripted sessions with distinct client addresses whose every argument carries a session tag; a step = dial / one client write followed by quiescence / close. Enumerated: all interleavings of 2 sessions x 5 steps for every ordered pair of scripts (252 each), all interleavings with <=6 context switches (thorough: all 34,650) of 3 sessions x 4 steps, sequential histories of N in {1,2,3,5} earlier sessions followed by every probe script. Oracle (differential): each session's reply transcript and canonical event list equal those of the same script run alone on a fresh server; session ids are one per connection and unshared; an event carrying a session's tag carries that session's source address. Distinct = distinct joint observations.",
        bounds_quick="2 sessions all interleavings; 3 sessions <=6 context switches over 2 scripts; histories N<=5",
        bounds_thorough="2 sessions all interleavings; 3 sessions all interleavings over all scripts; histories N<=5",
        assumptions=COMMON_ASSUME + ["step granularity: the services are quiescent between steps; finer-grained schedules are covered by the race pass of C01"],
        deadline_quick=900, deadline_thorough=3400,
    ),
    "C01": dict(
        rule="all 24 registry services behind the real server.New+Run (service + TCP echo port per server): protocol seeds (well-formed messages from the C04 grammars plus degenerate variants: missing terminators, length fields off by one / negative / huge, unknown verbs, TLS upgrade followed by garbage, RFB pixel-format changes, ADB/BER/IPP/SNMP/DNS malformations); every seed alone, lock-step and as 7-byte dribble; all ordered seed pairs (thorough: triples of short seeds); every truncation point of every seed followed by close; every byte position of every seed (<=160 bytes) set to 00/ff/80/+1/-1; all 1-byte strings and all 2-byte strings over a 16-value boundary alphabet (thorough: all 65,536); nesting ladders 10/1e3/1e5 (thorough 3e6) for redis arrays, BER (definite and indefinite), LDAP filters, JSON, XML; two concurrent sessions x (dial, seed, close) under five step orders for all seed pairs; ssh-simulator/ssh-auth through a real x/crypto/ssh client: every channel request type x 18 raw payloads (lengths 0..9, inconsistent length prefixes), channel opens with short extra data. Oracle: the worker process survives (a dead worker is replayed 3x alone and bisected to the scenario by trace marks), each step reaches quiescence within 8 s CPU / 512 MiB heap growth, a fresh echo connection is served after each scenario group. Distinct = (service, scenario group) outcomes.",
        bounds_quick="seed pairs; 2-byte raw over 16-value alphabet; ladders to 1e5",
        bounds_thorough="seed triples (short seeds); all 2-byte raw strings; ladders to 3e6",
        assumptions=COMMON_ASSUME + ["memory growth is judged by a budget per step, not proved absent", "FTP data-connection commands (PASV/EPSV/PORT) block in the kernel and are exercised by C09's real-socket part, not in the bubble", "fine-grained races between handler goroutines are covered by the free-running race pass, not by step-granularity interleavings"],
        deadline_quick=900, deadline_thorough=3400,
    ),
    "C10": dict(
        rule="tftp, memcached, snmp, counterstrike behind the real server.New+Run datagram dispatcher in a bubble (fake clock frozen, so the token bucket cannot refill): all request sequences of length 5 (thorough 6) over an 8-token alphabet per service (reply-drawing requests, multi-command memcached datagrams, malformed ones), each from a fresh source IP with the source port varying per datagram; bursts of 7/8/50/200 of every token; all interleavings of bursts from 2 IPs (6+6, 3+7) and 3 IPs (5+5+2; thorough 4+4+4). Oracle: responses captured by the datagram reply function grouped by destination IP: <=4 per source IP, none to an IP that did not send, and each IP's response list in a mixed history equals its list when it is the only sender (differential). Distinct = (service, responses, leading tokens) outcomes.",
        bounds_quick="sequence length 5 over 8 tokens; mixes 6+6, 3+7, 5+5+2",
        bounds_thorough="sequence length 6 over 8 tokens; plus 4+4+4",
        assumptions=COMMON_ASSUME + ["the limiter interval (10 min) is not crossed: the fake clock stands still within a history"],
    ),
    "C09": dict(
        rule="all 24 services behind the real server.New+Run in a bubble; for every seed of C01 (<=20 kB): the full seed, the seed cut in half (mid-command) and the seed without its last byte, plus 'no byte sent' and 6 raw prefixes, each followed by client close or by silence; all ordered pairs of (up to 14) seeds followed by close/silence; histories of N in {1,2,5,20,200} identical sequential connections; UDP: every seed datagram, empty and 1-byte datagrams, bursts of 20 and 200. Oracle: the server closed the connection (Handle returned) within 32 fake seconds of the trigger; the multiset of goroutines with a frame in github.com/honeytrap/honeytrap (signature: top honeytrap function <- creator) equals the pre-connection baseline after one more idle period; /proc/self/fd count after two GCs does not grow. Distinct = (service, scenario group) outcomes; classes count scenarios per (service, trigger).",
        bounds_quick="seed pairs over <=14 seeds; histories to 200",
        bounds_thorough="all seed pairs; histories to 200",
        assumptions=COMMON_ASSUME + ["FTP passive-mode listeners need kernel sockets and are checked in the real-socket part (part 'pasv'), not in the bubble", "'nothing accumulates' is decided up to N=200 connections"],
        deadline_quick=900, deadline_thorough=3400,
        parts={"pasv": 1},
    ),
    "C12": dict(
        rule="ssh-simulator behind the real server, spoken to by a real x/crypto/ssh client over an in-memory duplex connection: 16 credential-set orbit representatives (empty, wildcard, single pairs with empty user/password, overlapping users/passwords, 3-pair sets; thorough: plus all sets of size <=2) x 4 users x all password sequences of length <=3 (a sequence ends at the first accepted password); ldap: all credential sets of size <=2 (thorough 3) over users {root,admin,guest,''} x passwords {root,admin,123456,''} x all bind sequences of length <=2 over the 16 pairs and a third attempt from a 7-pair class alphabet, with the 5 gated operations (delete, add, modify, modify-dn, compare) probed before the first and after every attempt; ftp: all attempt sequences of length <=3 over 16 user/password pairs, all gated commands probed until login, file/directory commands after. Oracle: attempt k succeeds iff its pair is in the set (Go map reference; LDAP anonymous bind = success without login), independent of earlier attempts; one authentication event per attempt with the evaluated user and presented password; gated operations refused until a login succeeded. Distinct = credential sets / first attempts explored; classes show reply codes per gate state.",
        bounds_quick="ssh 16 sets, ldap sets <=2, sequences <=3",
        bounds_thorough="ssh +137 sets, ldap sets <=3 with full length-3 sequences",
        assumptions=COMMON_ASSUME + ["an SSH connection presents one user name with several passwords (x/crypto/ssh client)", "LDAP gates are judged until the first successful non-anonymous bind"],
        deadline_quick=900, deadline_thorough=3400,
    ),
    "C11": dict(
        rule="(a) services/filesystem.Htfs driven directly: explicit-state BFS over reachable working directories (state = Cwd(); root is constant; successors by replaying the shortest ChangeDir path on a fresh object), in every state RealPath(p) and ChangeDir(p) for all 7,810 paths over components {a,b,..,.,''} with <=5 components, relative and absolute; (b) every operation of the exported ftp.NewFileDriver (Stat, ListDir, MakeDir, DeleteDir, DeleteFile, PutFile, PutFile-append, GetFile, ChangeDir, Rename x 8 targets) with all 310 paths of <=3 components in each of the 3 reachable states, on a fixture whose sentinel tree (names from the same alphabet) lies beside and above the root; (c) FTP sessions through the real server in a bubble: all command sequences of length <=2 over 116 commands (CWD/MKD/RMD/DELE/MDTM/SIZE/RNFR+RNTO x 14 paths, CDUP, PWD) and length 3 starting with a directory change (third command a directory change; thorough: any). Oracle: RealPath lexically inside the root; Cwd()/PWD rooted, clean and inside the root; the tree outside the root (names, modes, sizes, hashes) unchanged after every operation; no read returns sentinel content.",
        bounds_quick="paths <=5 components (a), <=3 (b); sessions length 2, length 3 = change-dir x any x change-dir",
        bounds_thorough="sessions length 3 = change-dir x any x any",
        assumptions=COMMON_ASSUME + ["the root contains no symlinks leaving it", "data-connection commands (STOR/APPE/RETR/LIST/NLST) reach the filesystem only through the driver operations enumerated in (b)"],
        deadline_quick=900, deadline_thorough=3400,
    ),
    "C13": dict(
        rule="https service behind the real server in a bubble; the harness writes the TLS records itself and closes after the hello; the digest and server name are read from the https event of the connection. Structural product: legacy version {0300,0301,0302,0303} x 10 cipher-list shapes (1, 2, 40 suites; GREASE first/middle/last/several; SCSV 00ff/5600) x {no extensions, baseline extensions with/without SNI}; all ordered selections of <=3 (thorough 4) extensions from 11-14 kinds (status_request, sig-algs, ALPN, SCT, session-ticket, unknown 0x1234, two GREASE types, renegotiation-info, EMS, padding, supported-groups, point-formats, SNI; duplicates only of types whose body JA3 does not read) x 6 supported-group shapes (absent, GREASE first/last) x 0..3 point formats; GREASE twins (4 GREASE assignments of one hello must give one digest); record fragmentation: every single split point of 3 hellos across two records, 3-record splits, 11-byte TCP segments. Oracle: independent JA3 (MD5 of 'version,ciphers,extensions,groups,points' with GREASE removed from ciphers, extensions and groups). Distinct = distinct JA3 strings.",
        bounds_quick="extension selections <=3, half of the group x point shapes",
        bounds_thorough="extension selections <=4, all shapes",
        assumptions=COMMON_ASSUME + ["one RSA-4096 key is generated by the service per server name and worker"],
        deadline_quick=900, deadline_thorough=3400,
    ),
    "C02": dict(
        rule="raw listener built through the verif hook (unprivileged epoll + AF_UNIX socketpair, interface lo, caller-supplied ARP/route tables). Part A (bubble): every frame of the field-boundary product is injected synchronously into the real ethernet.Parse -> ipv4.Parse -> handleTCP/UDP/ICMP/ARP dispatch: every truncation (14..len) and paddings to 60/64/1500/1514/1600 of 6 well-formed frames; 5 ethertypes x payload 0..40; IHL 0..15 x 12 total-length values around header/buffer bounds x protocols {1,2,6,17,0,255} x transport lengths (quick 18 values, thorough 0..40,512,1460,1580); TCP data offset 0..15 x 16 segment lengths; the first three option bytes over {0,1,2,3,4,5,8,254,255}^3 x data offset {6,7}, each also cut after 1-3 option bytes; one-byte option tails; TCP flags 0..63 x payload {0,1,7} in 3 connection states; UDP length field {0,7,8,actual-1,actual,actual+1,65535} x 7 ports x payload 0..40; ICMP 0..12 bytes; ARP 0..40 bytes; ARP cache / route table with and without an entry for the peer (4 configurations) x SYN/ACK/data/FIN on 4 ports; floods of 1/1000/65534/65535/65536 (thorough 70000) half-open connection attempts with the clock standing still. Oracle: no panic on the dispatch path (the receive loop has no recover), and a well-formed UDP probe to an undecoded port still yields its event after every group. Part B (real clock): every 3rd frame of the product (thorough: all), two floods and the table configurations are written to the socketpair of the real Start() loop in the worker process; the process must survive and the probe event must arrive (waited for up to 60 s).",
        bounds_quick="transport lengths 18 values; floods to 65536; loop replay of 1/3 of the frames",
        bounds_thorough="transport lengths 0..40,512,1460,1580; flood 70000; loop replay of all frames",
        assumptions=COMMON_ASSUME + ["frames shorter than 14 bytes are never delivered by the kernel", "the ARP switch cannot be set from the configuration file, so ARP frames must be ignored", "VerifInject (hook) copies the dispatch chain of the Start() loop; part B replays frames through the real loop"],
        deadline_quick=900, deadline_thorough=3400,
        parts={"loop": 8},
    ),
    "C20": dict(
        rule="(a) canary.NewUniqueSet driven directly: all operation sequences of length <=6 over {Add k, Remove k (k in 3 keys), Each, Each whose callback removes the visited element} (8^1+..+8^6 = 299,592 histories) against a slice-set reference; every history is replayed on a fresh set (explicit-state: the reference contents are the state). (b) the real knockDetector goroutine on the bubble's fake clock, probes injected through the real packet handlers (SYN, UDP to undecoded port, ICMP echo): all probe sequences of length <=3 (thorough 4) over a 6-probe alphabet from one source; bursts of 5/100/101/150 probes with repeated ports (tcp-only, udp-only, mixed); all interleavings of the probes of 2-4 sources (3+3, 2+2+2, 2+2+1+1, 1+1+1+1, 4+2) in three port assignments; 5 s / 6 s / 61 s clock jumps at every position (<=2 per history). After the burst the clock is advanced tick by tick until three ticks pass without a report. Oracle: per (source, destination) the union of portscan.ports over its reports = set of distinct protocol/port pairs probed; no pair twice within a report; without clock jumps each pair in exactly one report and at most one report per protocol group; no report names a source that sent nothing.",
        bounds_quick="probe sequences <=3; interleavings of <=6 probes",
        bounds_thorough="probe sequences <=4",
        assumptions=COMMON_ASSUME + ["a (source, destination) burst is reported as one event per protocol group; the union of their port lists is compared with the set probed"],
    ),
    "C14": dict(
        rule="raw listener through the verif hook in a bubble (fake clock: the 60 s socket read timeout is instantaneous); the client is an independent RFC 793 client + frame codec; after every injected frame the transmit ring is drained and every emitted frame decoded. Single connections: client ISN {0,1,2^31-1,2^31,2^32-2,2^32-1} x destination port {23,80,443,445,1433,6379,9200,8081} x source port {1,1024,65535} x payload length {0,1,2,3,255,256,1459,1460,2047,2048,4000} x segmentation patterns (all compositions for <=4 bytes; 1, 1+rest, rest+1, halves, thirds, 4 and 8 segments of odd/even lengths otherwise) x PSH on the last / on every segment, then FIN. Simultaneous connections: all frame interleavings of 2 peers (same ports), 1 peer with 2 ports, 2 peers on decoded ports, 3 peers, mirrored port pairs (thorough: 4 peers). Oracle: SYN answered by exactly one SYN-ACK acking ISN+1; every emitted frame mirrors addresses/ports, has correct IPv4 header and TCP pseudo-header checksums (recomputed independently) and acknowledges exactly ISN+1+bytes received so far (+1 after FIN) mod 2^32; every data segment and the FIN are answered; one event per connection with the client's addresses whose payload is a prefix of the stream covering the first pushed segment; each connection's frame list in an interleaving equals its solo list.",
        bounds_quick="source port 1024 for payloads >256; 5 multi-connection sets",
        bounds_thorough="all source ports; plus 4 peers",
        assumptions=COMMON_ASSUME + ["server ISN and IP id are drawn by the implementation and masked", "segments arrive in order and unduplicated (the quantifier's scope)"],
        deadline_quick=900, deadline_thorough=3400,
    ),
    "C07": dict(
        rule="(a) pushers/file.OpenRotateFile driven directly on tmpfs inside a bubble (the rotation timestamp follows the fake clock): max size 1024, all write histories of depth <=3 (thorough 4), one level deeper below the three boundary first writes rem-1 / rem / rem+1 over a batch alphabet of 45 batches (1-3 JSON lines with lengths from {12,100,rem-1,rem,rem+1,1023,1024,1025,2049}, rem = space left, recomputed per state) x 'advance the clock 1 s before this write or not' (first three writes) x 'log file removed / renamed away before this write' (at most once); max sizes 4096 and 1 MiB with the scaled boundary set at depth 3. (b) the whole FileBackend (file.New, Send, writeLoop with its 1 s flush timer) in the bubble: all Send sequences of length 2..4 (thorough 5) over 7 pad lengths around the 1024 boundary, a 1,500-event burst that crosses the 500 KiB batch threshold, and three unwritable destinations. Oracle: after the flush interval the multiset of complete JSON lines in <file> and <file>.* equals the lines/events written (none lost, duplicated or torn); a rotated file once seen never changes or disappears; a file exceeds the max size only if it holds a single line; every Send returns (a Send still parked after one fake hour blocks forever).",
        bounds_quick="rotate depth 3 (4 below boundary first writes); backend sequences <=4",
        bounds_thorough="rotate depth 4 (5 below boundary first writes); backend sequences <=5",
        assumptions=COMMON_ASSUME + ["tmpfs (/dev/shm) file semantics; lines written before an external removal of the log file are legitimately gone"],
        deadline_quick=900, deadline_thorough=3400,
    ),
}

NOT_APPLICABLE = {}
HOOK_COMMITS = ["85f692541ea4dfe30d2f7985a9487ffdd59a796e", "1ecb6620a893d5573f13cd57c48cf14ef0094ebf"]
